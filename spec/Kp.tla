--------------------------------- MODULE Kp ---------------------------------
(***************************************************************************)
(* C20.  The `kp` command line program as a state machine:                 *)
(*                                                                         *)
(*   reader       the file arguments in order ("-" or no argument: stdin), *)
(*                line by line; blank lines and comments are skipped; a    *)
(*                coordinate line has 1-4 columns (plain or sexagesimal),  *)
(*                the left-out trailing elements get 0, 0, 0, NaN, or the  *)
(*                -z / -t values; a line with MORE than 4 columns is a     *)
(*                coordinate line as well (one output line), but the       *)
(*                documentation does not say what becomes of the surplus   *)
(*                columns: its tuple is left open;                         *)
(*   batcher      tuples are collected and sent on B at a time (B = 25000  *)
(*                in the real program; here a CONSTANT), the rest at the   *)
(*                end of the input;                                        *)
(*   transformer  forward, --inv, --roundtrip (forward-inverse residuals,  *)
(*                for every line of the batch, also when some lines fail;  *)
(*                the run may be refused only when the two passes report   *)
(*                different numbers of transformed tuples, see Mismatch);  *)
(*   formatter    one line per tuple: the first -D elements with -d        *)
(*                decimals, -d being any natural number;                   *)
(*   exit status  an operation the library refuses, or a file that cannot  *)
(*                be read: error message and non-zero status; otherwise,   *)
(*                and in particular on empty input, a normal end.  A file  *)
(*                with lone carriage returns for line ends: unspecified,   *)
(*                but never an abnormal end (ForeignLineEnds).             *)
(*                                                                         *)
(* The numbers themselves are not modelled: "the library's result for that *)
(* line's tuple" is computed by the library, in-process, by the binding.   *)
(* What the specification derives is WHICH tuple every output line reports *)
(* (source line, and per element: column / default / option value), in     *)
(* which order, how it is transformed and cut, and how the run ends.       *)
(*                                                                         *)
(* The input is described by *items* so that one description is valid for  *)
(* every batch size: an item is one line ("one") or B-2 lines of the same  *)
(* kind ("fill").  A full batch is one + fill + one, hence a coordinate    *)
(* count k*B + r with r in {0, 1, B-1} is  k * (one fill one)  followed by *)
(* nothing / one / one fill, and every gap between two items is a distinct *)
(* position relative to a batch boundary (after the first line of a batch, *)
(* before its last line, exactly on the boundary).  TLC runs the machine   *)
(* with B = 3, 4, 5; the binding instantiates the same items with          *)
(* B = 25000.                                                              *)
(***************************************************************************)
EXTENDS Integers, Sequences, FiniteSets, TLC, Json

CONSTANTS B,                    \* batch size, at least 3
          Shapes,               \* the shapes (input + command line) to explore
          DEV_EmptyFinalBatch   \* deviation switch, FALSE = reference (see EndOfInput)

ASSUME B \in Nat /\ B >= 3

ShapesC == TLCEval(Shapes)

NoOpt == -1     \* -d / -D not given

(***************************************************************************)
(* Shapes.                                                                 *)
(*   shape == [fam, files, op, opx, opts]                                  *)
(*   file  == [src   : "file" | "dash" (the argument "-") | "implicit"     *)
(*                     (no file argument at all: stdin) | "missing"        *)
(*                     (names a file that does not exist),                 *)
(*             items : Seq(item),                                          *)
(*             eol   : the last line ends in a newline (text detail, no    *)
(*                     influence on the machine),                          *)
(*             nl    : the line terminator of the file: "lf" | "crlf" (text *)
(*                     details, no influence on the machine) | "cr" (a     *)
(*                     lone carriage return: neither the documentation nor *)
(*                     the platform's notion of a text line covers it, see *)
(*                     ForeignLineEnds)]                                   *)
(*   item  == [t    : "c" (coordinate lines) | "blank" | "ws" (white space *)
(*                    only) | "comment" | "icomment" (indented comment),   *)
(*             rep  : "one" | "fill",                                      *)
(*             cols : 1..4, or 5..9 (surplus columns), or 0: line j of the *)
(*                    item has ((j-1) % 4) + 1 columns (a mixture inside   *)
(*                    one batch), or 10: ((j-1) % 7) + 1 columns (a        *)
(*                    mixture that includes surplus columns),              *)
(*             sep  : how the columns are separated: "sp" (one blank) |    *)
(*                    "tab" | "multi" (leading, trailing and repeated      *)
(*                    blanks and tabs): text detail, no influence,         *)
(*             form : "dec" | "sexa" (first two columns sexagesimal),      *)
(*             tail : the line ends in a comment,                          *)
(*             fail : which lines of the item lie outside the domain of    *)
(*                    the operation (in the direction applied first), so   *)
(*                    that the library does not count them as successes    *)
(*                    and returns NaN for them: "none" | "all" | "first" | *)
(*                    "mid" | "last" | "some" (every fourth line),         *)
(*             fk   : what the SECOND pass of --roundtrip does with such a *)
(*                    line (it then sees the NaN tuple the first pass left *)
(*                    behind): "dom" - the operation lets a NaN tuple pass *)
(*                    and counts it; "both" - not counted by the second    *)
(*                    pass either (e.g. a NaN line under an operation that *)
(*                    reports NaN tuples in both directions)]              *)
(*   op    == "ok" (accepted by the library; opx picks one) | "bad"        *)
(*   opts  == [inv, rt, z, t : BOOLEAN, d, D : Nat or NoOpt]               *)
(*            d is any natural number: more decimals than a binary64       *)
(*            number has (Binary64Decimals) are requested decimals too     *)
(***************************************************************************)
IsCoord(it) == it.t = "c"
Mult(it)    == IF it.rep = "fill" THEN B - 2 ELSE 1
MaxCols == 9
ColsAt(it, j) == IF it.cols = 0 THEN ((j - 1) % 4) + 1
                 ELSE IF it.cols = 10 THEN ((j - 1) % 7) + 1 ELSE it.cols
FailAt(it, j) == CASE it.fail = "none"  -> FALSE
                   [] it.fail = "all"   -> TRUE
                   [] it.fail = "first" -> j = 1
                   [] it.fail = "last"  -> j = Mult(it)
                   [] it.fail = "mid"   -> j = (Mult(it) + 1) \div 2
                   [] it.fail = "some"  -> j % 4 = 1
\* not counted by the second pass of --roundtrip
FailAt2(it, j) == FailAt(it, j) /\ it.fk = "both"

\* Every decimal a binary64 number has lies within the first 1074 places; a request for more
\* can only be answered with zeros ("beyond": the text must still denote the library's number,
\* how many of the zeros are written is not compared)
Binary64Decimals == 1074

----------------------------------------------------------------------------
(***************************************************************************)
(* Reader: where element e of the tuple of a line with c columns comes     *)
(* from.  "Missing height and time default to 0 and NaN or to the -z/-t    *)
(* values"; the help text calls -z/-t "a fixed height/time for all         *)
(* coordinates".  For a line that HAS the column while the option is given *)
(* the two texts do not agree on one reading: that element is left open    *)
(* ("z_or_col", "t_or_col") and not compared by the binding.               *)
(* Nothing is said about a line with more than 4 columns (drop the         *)
(* surplus? which ones?): every element of its tuple is left open ("open") *)
(* - what IS said holds for it as well: it is a coordinate line, it gets   *)
(* exactly one output line of -D numbers, at its place, and the run goes   *)
(* on.                                                                     *)
(***************************************************************************)
ElemRule(e, c, o) ==
    CASE c > 4  -> "open"
      [] e <= 2 -> IF c >= e THEN "col" ELSE "zero"
      [] e = 3  -> IF o.z THEN (IF c >= 3 THEN "z_or_col" ELSE "z")
                   ELSE IF c >= 3 THEN "col" ELSE "zero"
      [] e = 4  -> IF o.t THEN (IF c >= 4 THEN "t_or_col" ELSE "t")
                   ELSE IF c >= 4 THEN "col" ELSE "nan"
TupleRule(c, o) == [e \in 1..4 |-> ElemRule(e, c, o)]

\* Transformer
Mode(o) == CASE ~o.inv /\ ~o.rt -> "fwd"           \* library forward
             [] o.inv  /\ ~o.rt -> "inv"           \* library inverse
             [] ~o.inv /\ o.rt  -> "rt_fwd_inv"    \* inverse(forward(x)) - x
             [] o.inv  /\ o.rt  -> "rt_inv_fwd"    \* forward(inverse(x)) - x

\* Formatter: the output line for the input line <<f, i, j>> (file, item, copy)
Line(src, s) ==
    [f |-> src[1], i |-> src[2], j |-> src[3],
     cols |-> ColsAt(s.files[src[1]].items[src[2]], src[3]),
     \* a tuple the library fails on is printed like every other one: the library's
     \* result for it (NaN where the operation says so); `ok` only records the fact
     ok   |-> ~FailAt(s.files[src[1]].items[src[2]], src[3]),
     mode |-> Mode(s.opts), dec |-> s.opts.d, dim |-> s.opts.D]

----------------------------------------------------------------------------
(***************************************************************************)
(* Sexagesimal notation (module documentation of the parser: "45:30:36,    *)
(* 45:30:36N, -45:30:36 etc."): D:M:S or D:M, a trailing N or E for        *)
(* positive, S or W for negative, or a leading minus sign.  The value is   *)
(* sign * (D + M/60 + S/3600).  The table holds notations whose value is a *)
(* dyadic rational with few bits, so that every order of evaluating the    *)
(* formula in binary64 is exact: M in {0, 15, 30, 45}, S in {0, 28.125,    *)
(* 56.25}.  Values are integers in units of 1/128 degree.                  *)
(***************************************************************************)
SexaMin  == <<0, 15, 30, 45>>
SexaSec  == <<[txt |-> "00", n128 |-> 0], [txt |-> "28.125", n128 |-> 1], [txt |-> "56.25", n128 |-> 2]>>
SexaSign == <<[pre |-> "", suf |-> "", s |-> 1], [pre |-> "", suf |-> "N", s |-> 1],
              [pre |-> "", suf |-> "E", s |-> 1], [pre |-> "", suf |-> "S", s |-> -1],
              [pre |-> "", suf |-> "W", s |-> -1], [pre |-> "-", suf |-> "", s |-> -1]>>
SexaDeg  == {0, 7, 12, 55}

\* D:M:S
Sexa3(g, D, mi, si) ==
    [txt  |-> SexaSign[g].pre \o ToString(D) \o ":" \o ToString(SexaMin[mi]) \o ":" \o SexaSec[si].txt \o SexaSign[g].suf,
     n128 |-> SexaSign[g].s * (128 * D + 32 * (mi - 1) + SexaSec[si].n128)]
\* D:M
Sexa2(g, D, mi) ==
    [txt  |-> SexaSign[g].pre \o ToString(D) \o ":" \o ToString(SexaMin[mi]) \o SexaSign[g].suf,
     n128 |-> SexaSign[g].s * (128 * D + 32 * (mi - 1))]

\* A zero degree field with a leading minus sign ("-0:30") denotes the negative angle: the sign belongs to
\* the whole notation (Angular.tla, C19: "-0 deg 30 min" is sg = -1, d = 0); kp must read it that way too.
\* (At first left out as "a matter of C19"; seeded change C20-3 showed that kp's reading of such a line then
\* went unchecked here.)
SexaTable ==
       {Sexa3(x[1], x[2], x[3], x[4]) : x \in (1..6) \X SexaDeg \X (1..4) \X (1..3)}
  \cup {Sexa2(x[1], x[2], x[3]) : x \in (1..6) \X SexaDeg \X (1..4)}

----------------------------------------------------------------------------
(***************************************************************************)
(* Reference (big step): the coordinate lines of a shape in input order,   *)
(* and the output that the property statement demands.  Neither depends on *)
(* B or on where one file ends and the next begins.                        *)
(***************************************************************************)
ItemLines(s, f, i) ==
    LET it == s.files[f].items[i]
    IN IF IsCoord(it) THEN [j \in 1..Mult(it) |-> <<f, i, j>>] ELSE <<>>

RECURSIVE CatItems(_, _, _)
CatItems(s, f, i) == IF i > Len(s.files[f].items) THEN <<>>
                     ELSE ItemLines(s, f, i) \o CatItems(s, f, i + 1)
RECURSIVE CatFiles(_, _)
CatFiles(s, f) == IF f > Len(s.files) THEN <<>> ELSE CatItems(s, f, 1) \o CatFiles(s, f + 1)

CoordLines(s) == CatFiles(s, 1)
RefOut(s) == LET L == CoordLines(s) IN [n \in 1..Len(L) |-> Line(L[n], s)]

SrcFails(s, src)  == FailAt(s.files[src[1]].items[src[2]], src[3])
SrcFails2(s, src) == FailAt2(s.files[src[1]].items[src[2]], src[3])
HasFailing(s) == \E n \in 1..Len(CoordLines(s)) : SrcFails(s, CoordLines(s)[n])
\* The documentation does not say how a run ends when the operation is valid but some
\* tuples fail: the exit status is then left open.
ExitDecided(s) == ~HasFailing(s)

\* The same program, written differently: all lines first, then cut into
\* chunks of b, each chunk transformed and formatted on its own.
RECURSIVE Chunks(_, _)
Chunks(q, b) == IF q = <<>> THEN <<>>
                ELSE IF Len(q) <= b THEN <<q>>
                ELSE <<SubSeq(q, 1, b)>> \o Chunks(SubSeq(q, b + 1, Len(q)), b)
RECURSIVE Flat(_)
Flat(qq) == IF qq = <<>> THEN <<>> ELSE Head(qq) \o Flat(Tail(qq))
ChunkedOut(s, b) ==
    LET cs == Chunks(CoordLines(s), b)
    IN Flat([c \in 1..Len(cs) |-> [k \in 1..Len(cs[c]) |-> Line(cs[c][k], s)]])

\* --roundtrip, the one documented way to end early.  The program applies the operation in
\* one direction and then in the other to one batch at a time; the library reports for each
\* pass how many tuples it transformed.  When the two passes of a batch do NOT report the same
\* number, the program may refuse to go on ("Roundtrip - mismatch between number of Fwd and
\* Inv results"): an error end, with what was written before staying a correct prefix (the
\* statement says "prints the residuals", the program's message says why it does not: both
\* ends are admitted).  When the two numbers ARE the same - no line fails, or every failing
\* line fails in both passes - nothing justifies a refusal: the batch is printed, every line
\* of it as the residual of its own tuple (NaN where the library says so).
Mismatch(s, q) == Cardinality({k \in 1..Len(q) : SrcFails(s, q[k])})
                  # Cardinality({k \in 1..Len(q) : SrcFails2(s, q[k])})
RefusalOpen(s) == /\ s.opts.rt
                  /\ LET cs == Chunks(CoordLines(s), B) IN \E c \in 1..Len(cs) : Mismatch(s, cs[c])

\* How the run must end.  "open": the input contains a file that is not made of text lines in
\* the sense of the documentation or the platform (lone carriage returns); all that is demanded
\* then is that the program does not end abnormally.  The first file argument that is missing or
\* foreign decides (the files are read in order).
Trouble(s) == {f \in 1..Len(s.files) : s.files[f].src = "missing" \/ s.files[f].nl = "cr"}
FirstTrouble(s) == CHOOSE f \in Trouble(s) : \A g \in Trouble(s) : f <= g
RefStatus(s) == IF s.op # "ok" THEN "error"
                ELSE IF Trouble(s) = {} THEN "ok"
                ELSE IF s.files[FirstTrouble(s)].src = "missing" THEN "error" ELSE "open"

----------------------------------------------------------------------------
(***************************************************************************)
(* The machine, one action per step the program takes.                     *)
(***************************************************************************)
VARIABLES shape,    \* the input and the command line (never changes)
          pc,       \* "start" "open" "read" "transform" "format" "done"
          fi, ii, jj,   \* file, item, copy within the item
          buf,      \* the batch being collected: Seq(<<f, i, j>>)
          res,      \* the batch after transformation
          out,      \* lines written to stdout so far
          status    \* "run", then "ok" (normal end), "error" (message on stderr, non-zero status),
                    \* "refused" (an error end that the documentation leaves open, see RefuseRoundtrip)
                    \* or "open" (any end but an abnormal one, see ForeignLineEnds)

vars == <<shape, pc, fi, ii, jj, buf, res, out, status>>

Files   == shape.files
CurFile == Files[fi]
CurItem == CurFile.items[ii]

Init == /\ shape \in ShapesC
        /\ pc = "start" /\ fi = 0 /\ ii = 0 /\ jj = 0
        /\ buf = <<>> /\ res = <<>> /\ out = <<>> /\ status = "run"

\* The operation is instantiated before anything is read
Instantiate == /\ pc = "start" /\ shape.op = "ok"
               /\ pc' = "open" /\ fi' = 1
               /\ UNCHANGED <<shape, ii, jj, buf, res, out, status>>

BadOperation == /\ pc = "start" /\ shape.op = "bad"
                /\ pc' = "done" /\ status' = "error"
                /\ UNCHANGED <<shape, fi, ii, jj, buf, res, out>>

OpenFile == /\ pc = "open" /\ fi <= Len(Files) /\ CurFile.src # "missing" /\ CurFile.nl # "cr"
            /\ pc' = "read" /\ ii' = 1 /\ jj' = 1
            /\ UNCHANGED <<shape, fi, buf, res, out, status>>

OpenFails == /\ pc = "open" /\ fi <= Len(Files) /\ CurFile.src = "missing"
             /\ pc' = "done" /\ status' = "error"
             /\ UNCHANGED <<shape, fi, ii, jj, buf, res, out>>

\* A file whose "lines" end in lone carriage returns: what the program makes of it is not
\* specified (one long line? as many lines as there are carriage returns?); from here on the
\* only demand is the universal one: no abnormal end.
ForeignLineEnds == /\ pc = "open" /\ fi <= Len(Files) /\ CurFile.src # "missing" /\ CurFile.nl = "cr"
                   /\ pc' = "done" /\ status' = "open"
                   /\ UNCHANGED <<shape, fi, ii, jj, buf, res, out>>

Advance == IF jj < Mult(CurItem) THEN jj' = jj + 1 /\ ii' = ii
           ELSE ii' = ii + 1 /\ jj' = 1

\* blank line, white space, comment: nothing happens
SkipLine == /\ pc = "read" /\ ii <= Len(CurFile.items) /\ ~IsCoord(CurItem)
            /\ Advance
            /\ UNCHANGED <<shape, pc, fi, buf, res, out, status>>

\* a coordinate line: one more tuple; a full batch is sent on at once
ReadCoord == /\ pc = "read" /\ ii <= Len(CurFile.items) /\ IsCoord(CurItem)
             /\ buf' = Append(buf, <<fi, ii, jj>>)
             /\ Advance
             /\ pc' = IF Len(buf') = B THEN "transform" ELSE "read"
             /\ UNCHANGED <<shape, fi, res, out, status>>

EndOfFile == /\ pc = "read" /\ ii > Len(CurFile.items)
             /\ fi' = fi + 1 /\ pc' = "open"
             /\ UNCHANGED <<shape, ii, jj, buf, res, out, status>>

\* After the last file: what is left is transformed; if nothing is left the
\* program is finished.  DEV_EmptyFinalBatch is the named deviation "an
\* empty final batch makes the program end abnormally" (what it has written
\* so far stays written).
EndOfInput == /\ pc = "open" /\ fi > Len(Files)
              /\ IF buf # <<>> THEN pc' = "transform" /\ UNCHANGED status
                 ELSE pc' = "done" /\ status' = IF DEV_EmptyFinalBatch THEN "error" ELSE "ok"
              /\ UNCHANGED <<shape, fi, ii, jj, buf, res, out>>

Transform == /\ pc = "transform"
             /\ res' = [k \in 1..Len(buf) |-> [src |-> buf[k], mode |-> Mode(shape.opts)]]
             /\ buf' = <<>> /\ pc' = "format"
             /\ UNCHANGED <<shape, fi, ii, jj, out, status>>

\* With --roundtrip, a batch for which the two passes do not report the same number of
\* transformed tuples may end the run with an error instead of being printed (see Mismatch);
\* every other batch is printed.
RefuseRoundtrip == /\ pc = "transform" /\ shape.opts.rt
                   /\ Mismatch(shape, buf)
                   /\ pc' = "done" /\ status' = "refused"
                   /\ UNCHANGED <<shape, fi, ii, jj, buf, res, out>>

Format == /\ pc = "format"
          /\ out' = out \o [k \in 1..Len(res) |-> Line(res[k].src, shape)]
          /\ res' = <<>>
          /\ IF fi > Len(Files) THEN pc' = "done" /\ status' = "ok"
             ELSE pc' = "read" /\ UNCHANGED status
          /\ UNCHANGED <<shape, fi, ii, jj, buf>>

Next == Instantiate \/ BadOperation \/ OpenFile \/ OpenFails \/ ForeignLineEnds \/ SkipLine \/ ReadCoord
        \/ EndOfFile \/ EndOfInput \/ Transform \/ RefuseRoundtrip \/ Format

Spec == Init /\ [][Next]_vars

----------------------------------------------------------------------------
\* Properties

TypeOK == /\ pc \in {"start", "open", "read", "transform", "format", "done"}
          /\ status \in {"run", "ok", "error", "refused", "open"}
          /\ (status = "run") <=> (pc # "done")
          /\ Len(buf) <= B /\ Len(res) <= B

\* Nothing is lost, duplicated or reordered on the way: what has been
\* written, what is being formatted and what is waiting in the batch are,
\* in this order, a prefix of the demanded output.
Pending == out \o [k \in 1..Len(res) |-> Line(res[k].src, shape)]
               \o [k \in 1..Len(buf) |-> Line(buf[k], shape)]
OrderInv == LET r == RefOut(shape) p == Pending
            IN Len(p) <= Len(r) /\ p = SubSeq(r, 1, Len(p))

\* exactly one output line per coordinate line, in input order
OneLinePerCoordInv == (pc = "done" /\ status = "ok") => out = RefOut(shape)

\* how the run ends
StatusInv == pc = "done" =>
    \/ status = IF RefStatus(shape) = "ok" /\ DEV_EmptyFinalBatch /\ Len(CoordLines(shape)) % B = 0
                THEN "error" ELSE RefStatus(shape)
    \/ status = "refused" /\ RefusalOpen(shape) /\ RefStatus(shape) = "ok"

\* failing tuples do not cost output lines: every coordinate line, failed or not, is reported
FailedLinesInv == (pc = "done" /\ status = "ok") =>
    Cardinality({n \in 1..Len(out) : ~out[n].ok}) = Cardinality({n \in 1..Len(CoordLines(shape)) : SrcFails(shape, CoordLines(shape)[n])})

\* a run is refused only under --roundtrip and only with a batch in hand whose two passes disagree;
\* in particular a batch in which every failing line fails in both passes is printed
RefusalInv == status = "refused" => (shape.opts.rt /\ pc = "done" /\ buf # <<>> /\ Mismatch(shape, buf))

\* empty input (no file content, or blank lines and comments only): no output, normal end
EmptyInputInv == (pc = "done" /\ RefStatus(shape) = "ok" /\ CoordLines(shape) = <<>> /\ ~DEV_EmptyFinalBatch)
                 => (out = <<>> /\ status = "ok")

\* a batch is sent on exactly when it is full or the input is exhausted, never empty
BatchInv == /\ pc = "read" => Len(buf) < B
            /\ pc = "transform" => (buf # <<>> /\ (Len(buf) = B \/ fi > Len(Files)))

\* The output does not depend on the batch size nor on the split over files:
\* it equals what the chunk-wise program writes for every chunk size, the
\* chunk-wise program being defined on the concatenation of all files.
InvarianceInv == (pc = "done" /\ status = "ok") =>
    \A b \in 1..(Len(CoordLines(shape)) + 1) : ChunkedOut(shape, b) = out

\* run-length view of the output (one entry per item), used by Emit: every
\* item appears with all its copies, in order
RunHeads(o) == SelectSeq(o, LAMBDA l : l.j = 1)
RunsInv == \A n \in 1..Len(out) :
             out[n].j > 1 => (n > 1 /\ out[n - 1].f = out[n].f /\ out[n - 1].i = out[n].i /\ out[n - 1].j = out[n].j - 1)

----------------------------------------------------------------------------
(***************************************************************************)
(* Export: the shape with what the specification predicts for it, in a     *)
(* form that does not mention B: the output is listed item by item (every  *)
(* item stands for all its lines, in order), the number of output lines is *)
(* ones + fills * (B - 2), `rules` gives per column count the source of    *)
(* each tuple element.                                                     *)
(***************************************************************************)
Emit == pc = "done" =>
    LET h == RunHeads(out) IN
    PrintT(<<"SHAPE", ToJson([
        fam    |-> shape.fam,
        files  |-> shape.files,
        op     |-> shape.op,
        opx    |-> shape.opx,
        opts   |-> shape.opts,
        status |-> status,
        refstatus |-> RefStatus(shape),
        refused |-> (status = "refused"),
        exit_compared |-> ExitDecided(shape),
        B      |-> B,
        nfail  |-> Cardinality({n \in 1..Len(CoordLines(shape)) : SrcFails(shape, CoordLines(shape)[n])}),
        nfail2 |-> Cardinality({n \in 1..Len(CoordLines(shape)) : SrcFails2(shape, CoordLines(shape)[n])}),
        mode   |-> Mode(shape.opts),
        ones   |-> Cardinality({n \in 1..Len(h) : Files[h[n].f].items[h[n].i].rep = "one"}),
        fills  |-> Cardinality({n \in 1..Len(h) : Files[h[n].f].items[h[n].i].rep = "fill"}),
        out    |-> [n \in 1..Len(h) |-> <<h[n].f, h[n].i>>],
        rules  |-> [c \in 1..MaxCols |-> TupleRule(c, shape.opts)],
        compare |-> IF RefStatus(shape) = "open" THEN "nopanic"
                    ELSE IF shape.opts.d # NoOpt /\ shape.opts.D # NoOpt THEN "numbers" ELSE "count",
        decimals |-> IF shape.opts.d = NoOpt THEN "guess"
                     ELSE IF shape.opts.d <= Binary64Decimals THEN "shown" ELSE "beyond"
    ])>>)
=============================================================================
