------------------------------- MODULE MC_C20 -------------------------------
(***************************************************************************)
(* Bounded instances of Kp: families of shapes.  Everything that varies    *)
(* "in rotation" (option set, operation, source of the input) is a         *)
(* function of the shape's indices, so that the enumeration is the         *)
(* specification's, not the driver's.                                      *)
(***************************************************************************)
EXTENDS Kp

\* ---- items -----------------------------------------------------------------
CoordX(rep, c, form, tail, fail, fk, sep) ==
    [t |-> "c", rep |-> rep, cols |-> c, form |-> form, tail |-> tail, fail |-> fail, fk |-> fk, sep |-> sep]
CoordF(rep, c, form, tail, fail) == CoordX(rep, c, form, tail, fail, "dom", "sp")
Coord(rep, c, form, tail) == CoordF(rep, c, form, tail, "none")
Deco(kind) == [t |-> kind, rep |-> "one", cols |-> 0, form |-> "dec", tail |-> FALSE, fail |-> "none", fk |-> "dom", sep |-> "sp"]
DecoKinds == <<"blank", "comment", "ws", "icomment">>

\* ---- sizes: k full batches and a remainder of 0, 1 or B-1 -----------------
Sizes == <<[k |-> 0, r |-> "0"], [k |-> 0, r |-> "1"], [k |-> 0, r |-> "B1"],
           [k |-> 1, r |-> "0"], [k |-> 1, r |-> "1"], [k |-> 1, r |-> "B1"],
           [k |-> 2, r |-> "0"], [k |-> 2, r |-> "1"], [k |-> 2, r |-> "B1"]>>
NS == Len(Sizes)
RECURSIVE RepK(_)
RepK(k) == IF k = 0 THEN <<>> ELSE <<"one", "fill", "one">> \o RepK(k - 1)
RepR(r) == CASE r = "0" -> <<>> [] r = "1" -> <<"one">> [] r = "B1" -> <<"one", "fill">>
Reps(si) == RepK(Sizes[si].k) \o RepR(Sizes[si].r)
M(si) == Len(Reps(si))          \* number of coordinate items

\* ---- mixtures of column counts, notations, trailing comments ---------------
ColsFor(cp, idx, rep) ==
    CASE cp \in 1..4 -> cp
      [] cp = 5 -> IF rep = "fill" THEN 0 ELSE (idx % 4) + 1
      [] cp = 6 -> IF idx = 1 THEN 2 ELSE 4
      [] cp = 7 -> IF idx = 1 THEN 4 ELSE 1
      [] cp = 8 -> IF rep = "fill" THEN 0 ELSE 4 - (idx % 4)
FormFor(fp, idx) == CASE fp = 1 -> "dec" [] fp = 2 -> "sexa" [] fp = 3 -> IF idx % 2 = 1 THEN "sexa" ELSE "dec"
TailFor(tp, idx) == tp = 2 /\ idx % 2 = 1

Coords(si, cp, fp, tp) ==
    [idx \in 1..M(si) |-> Coord(Reps(si)[idx], ColsFor(cp, idx, Reps(si)[idx]), FormFor(fp, idx), TailFor(tp, idx))]

\* eight single lines: every column count in both notations
SmallCoords == [idx \in 1..8 |-> Coord("one", ((idx - 1) % 4) + 1, IF idx > 4 THEN "sexa" ELSE "dec", idx \in {2, 7})]

\* ---- blank lines and comments in the gaps 0..m -----------------------------
Weave(coords, D) ==
    LET W[g \in 0..Len(coords)] == IF g = 0 THEN D[0] ELSE W[g - 1] \o <<coords[g]>> \o D[g]
    IN W[Len(coords)]
NoDeco(m) == [g \in 0..m |-> <<>>]
DecoAt(m, g, kx) == [x \in 0..m |-> IF x = g THEN <<Deco(DecoKinds[kx])>> ELSE <<>>]
DecoAt2(m, g1, k1, g2, k2) ==
    [x \in 0..m |-> (IF x = g1 THEN <<Deco(DecoKinds[k1])>> ELSE <<>>) \o (IF x = g2 THEN <<Deco(DecoKinds[k2])>> ELSE <<>>)]
DecoAll(m) == [x \in 0..m |-> <<Deco(DecoKinds[(x % 4) + 1])>>]

\* ---- split over files -------------------------------------------------------
Cut(items, cuts) ==
    LET bounds == <<0>> \o cuts \o <<Len(items)>>
    IN [p \in 1..(Len(cuts) + 1) |-> SubSeq(items, bounds[p] + 1, bounds[p + 1])]
SrcPatterns(n) == CASE n = 1 -> << <<"file">>, <<"dash">>, <<"implicit">> >>
                    [] n = 2 -> << <<"file", "file">>, <<"dash", "file">>, <<"file", "dash">> >>
                    [] n = 3 -> << <<"file", "file", "file">>, <<"file", "dash", "file">>,
                                   <<"dash", "file", "file">>, <<"file", "file", "dash">> >>
Srcs(n, x) == SrcPatterns(n)[(x % Len(SrcPatterns(n))) + 1]
\* eol: whether the last line of the file is terminated by a newline
MkFiles(pieces, srcs) == [p \in 1..Len(pieces) |-> [src |-> srcs[p], items |-> pieces[p],
                                                    eol |-> (p + Len(pieces[p])) % 2 = 1, nl |-> "lf"]]
\* the same files with other line terminators
WithNl(files, nls) == [p \in 1..Len(files) |-> [files[p] EXCEPT !.nl = nls[p]]]
\* a file that does not exist, as argument number p
WithMissing(files, p) ==
    [q \in 1..(Len(files) + 1) |-> IF q < p THEN files[q]
                                   ELSE IF q = p THEN [src |-> "missing", items |-> <<>>, eol |-> TRUE, nl |-> "lf"]
                                   ELSE files[q - 1]]

\* ---- option sets ------------------------------------------------------------
Opt(inv, rt, z, t, d, D) == [inv |-> inv, rt |-> rt, z |-> z, t |-> t, d |-> d, D |-> D]
Decs == <<0, 3, 9>>
NCmp == 192
\* the 192 option sets under which numbers are compared (-d and -D given)
CmpOpt(x) == Opt(x % 2 = 1, (x \div 2) % 2 = 1, (x \div 4) % 2 = 1, (x \div 8) % 2 = 1,
                 Decs[((x \div 16) % 3) + 1], ((x \div 48) % 4) + 1)
RotOpt(x) == CmpOpt((x * 37) % NCmp)
\* option sets under which only the number of lines is compared (12)
CountOpt(x) == Opt(x % 2 = 1, (x \div 2) % 2 = 1, x % 3 = 0, x % 3 = 1,
                   IF (x \div 4) % 3 = 2 THEN 3 ELSE NoOpt,
                   IF (x \div 4) % 3 = 1 THEN 2 ELSE NoOpt)
NOps == 4    \* operations accepted by the library (the binding names them); 5, 6: family F; 7: family H
NBad == 3    \* operations refused by the library

Shape(fam, files, op, opx, opts) == [fam |-> fam, files |-> files, op |-> op, opx |-> opx, opts |-> opts]
OneFile(items, x) == MkFiles(<<items>>, Srcs(1, x))

\* ---- family A: blank lines and comments relative to the batch boundaries ----
FpOf(si) == IF si % 2 = 0 THEN 3 ELSE 1
A0(si) == Shape("A", OneFile(Weave(Coords(si, 5, FpOf(si), 1), NoDeco(M(si))), si),
                "ok", (si % NOps) + 1, RotOpt(si))
A1(si, g, kx) == Shape("A", OneFile(Weave(Coords(si, 5, FpOf(si), 1), DecoAt(M(si), g, kx)), si + g),
                       "ok", ((si + g) % NOps) + 1, RotOpt(11 * si + g + kx))
A2(si, g1, g2, v) == Shape("A", OneFile(Weave(Coords(si, 5, FpOf(si), 1),
                                              DecoAt2(M(si), g1, ((g1 + si + v) % 4) + 1, g2, ((g2 + 2 * si + 3 * v) % 4) + 1)), g1 + g2 + v),
                           "ok", ((si + g1 + g2 + v) % NOps) + 1, RotOpt(13 * si + 5 * g1 + g2 + 29 * v))
FamAQ == {A0(si) : si \in 1..NS}
         \cup {A1(x[1], x[2], ((x[1] + x[2]) % 4) + 1) : x \in {y \in (1..NS) \X (0..8) : y[2] <= M(y[1])}}
FamAT == {A0(si) : si \in 1..NS}
         \cup {A1(x[1], x[2], x[3]) : x \in {y \in (1..NS) \X (0..8) \X (1..4) : y[2] <= M(y[1])}}
         \cup {A2(x[1], x[2], x[3], x[4]) : x \in {y \in (1..NS) \X (0..8) \X (0..8) \X (0..1) : y[2] <= y[3] /\ y[3] <= M(y[1])}}

\* ---- family B: the same lines spread over 2 or 3 files / stdin --------------
BaseB(si, dec) == Weave(Coords(si, 5, 1, 1), IF dec THEN DecoAll(M(si)) ELSE NoDeco(M(si)))
LB(si, dec) == Len(BaseB(si, dec))
B2(si, dec, c) == Shape("B", MkFiles(Cut(BaseB(si, dec), <<c>>), Srcs(2, si + c)),
                        "ok", ((si + c) % NOps) + 1, RotOpt(17 * si + c))
B3(si, dec, c1, c2) == Shape("B", MkFiles(Cut(BaseB(si, dec), <<c1, c2>>), Srcs(3, si + c1 + c2)),
                             "ok", ((si + c1 + c2) % NOps) + 1, RotOpt(19 * si + 3 * c1 + c2))
FamBQ == {B2(x[1], FALSE, x[2]) : x \in {y \in (1..NS) \X (0..8) : y[2] <= LB(y[1], FALSE)}}
         \cup {B3(si, FALSE, LB(si, FALSE) \div 3, (2 * LB(si, FALSE) + 2) \div 3) : si \in 1..NS}
         \cup {B3(si, TRUE, LB(si, TRUE) \div 2, LB(si, TRUE) \div 2) : si \in 1..NS}
FamBT == {B2(x[1], x[2], x[3]) : x \in {y \in (1..NS) \X BOOLEAN \X (0..17) : y[3] <= LB(y[1], y[2])}}
         \cup {B3(x[1], FALSE, x[2], x[3]) : x \in {y \in (1..NS) \X (0..8) \X (0..8) : y[2] <= y[3] /\ y[3] <= LB(y[1], FALSE)}}
         \cup {B3(x[1], TRUE, x[2], x[3]) : x \in {y \in (1..NS) \X (0..17) \X (0..17) :
                                                    y[2] <= y[3] /\ y[3] <= LB(y[1], TRUE) /\ (y[2] + y[3]) % 3 = 0}}

\* ---- family C: option sets ---------------------------------------------------
SmallItems == Weave(SmallCoords, DecoAt2(8, 0, 2, 4, 1))
C1(x, opx) == Shape("C", OneFile(SmallItems, x), "ok", opx, CmpOpt(x))
C2(x) == Shape("C", OneFile(SmallItems, x), "ok", (x % NOps) + 1, CountOpt(x))
C3(si, x) == Shape("C", OneFile(Weave(Coords(si, 5, 3, 2), NoDeco(M(si))), x), "ok", (x % NOps) + 1, CountOpt(x))
C4(si, x) == Shape("C", OneFile(Weave(Coords(si, 8, 3, 1), NoDeco(M(si))), x), "ok", ((x + (x \div 4)) % NOps) + 1, CmpOpt(x))
FamCQ == {C1(x, ((x + (x \div 4)) % NOps) + 1) : x \in 0..(NCmp - 1)}
         \cup {C2(x) : x \in 0..11}
         \cup {C3(si, si) : si \in {1, 3, 4, 8}}
FamCT == {C1(x, opx) : x \in 0..(NCmp - 1), opx \in 1..NOps}
         \cup {C2(x) : x \in 0..11}
         \cup {C3(si, x) : si \in {1, 3, 4, 5, 8}, x \in 0..11}
         \cup {C4(si, x) : si \in 2..NS, x \in 0..(NCmp - 1)}

\* ---- family D: mixtures of column counts and notations ----------------------
D1(si, cp, fp, tp) == Shape("D", OneFile(Weave(Coords(si, cp, fp, tp), NoDeco(M(si))), si + cp),
                            "ok", ((si + cp + fp) % NOps) + 1, RotOpt(23 * si + 7 * cp + 3 * fp + tp))
FamDQ == {D1(si, cp, fp, ((cp + fp) % 2) + 1) : si \in {3, 5}, cp \in 1..8, fp \in {1, 3}}
         \cup {D1(si, 5, 2, 2) : si \in {2, 6, 9}}
FamDT == {D1(si, cp, fp, tp) : si \in 1..NS, cp \in 1..8, fp \in 1..3, tp \in 1..2}

\* ---- family E: runs that must end with an error --------------------------------
E1(si, bx, x) == Shape("E", OneFile(Weave(Coords(si, 2, 1, 1), NoDeco(M(si))), x), "bad", bx, RotOpt(x))
E2(si, n, p) ==
    LET items == BaseB(si, FALSE)
        cuts  == IF n = 1 THEN <<>> ELSE IF n = 2 THEN <<Len(items) \div 2>> ELSE <<Len(items) \div 3, (2 * Len(items)) \div 3>>
    IN Shape("E", WithMissing(MkFiles(Cut(items, cuts), Srcs(n, 0)), p), "ok", ((si + p) % NOps) + 1, RotOpt(si + n + p))
E3(bx) == Shape("E", OneFile(SmallItems, bx), "bad", bx, CountOpt(bx))
FamEQ == {E1(si, bx, si + bx) : si \in {1, 2, 5}, bx \in 1..NBad}
         \cup {E2(x[1], x[2], x[3]) : x \in {y \in {1, 2, 5} \X (1..3) \X (1..4) : y[3] <= y[2] + 1 /\ (y[1] # 5 \/ y[2] = 2)}}
         \cup {E3(bx) : bx \in 1..NBad}
FamET == {E1(si, bx, si + bx) : si \in 1..NS, bx \in 1..NBad}
         \cup {E2(x[1], x[2], x[3]) : x \in {y \in (1..NS) \X (1..3) \X (1..4) : y[3] <= y[2] + 1}}
         \cup {E3(bx) : bx \in 1..NBad}

\* ---- family F: coordinate lines on which the library fails -----------------------
\* (the operation is valid; some tuples lie outside its domain in the direction applied
\* first, the library returns NaN for them and counts fewer successes than tuples).
\* Failing lines at the first / middle / last position of a batch and in the final
\* partial batch, one or several per batch, forward, --inv and --roundtrip.
FailPats(rep) == IF rep = "one" THEN <<"all">> ELSE <<"first", "mid", "last", "some">>
NPats(si, idx) == Len(FailPats(Reps(si)[idx]))
FCoords(si, F) == [idx \in 1..M(si) |-> CoordF(Reps(si)[idx], 2 + (idx % 3), "dec", FALSE, F[idx])]
Modes == <<[inv |-> FALSE, rt |-> FALSE], [inv |-> TRUE, rt |-> FALSE],
           [inv |-> FALSE, rt |-> TRUE], [inv |-> TRUE, rt |-> TRUE]>>
FOpt(mx, x) == Opt(Modes[mx].inv, Modes[mx].rt, x % 2 = 1, (x \div 2) % 2 = 1, Decs[(x % 3) + 1], (x % 4) + 1)
\* operations with a domain limit: 5 fails in both directions, 6 only in the inverse one
FOpx(mx, x) == IF Modes[mx].inv /\ x % 2 = 0 THEN 6 ELSE 5
FShape(si, F, mx, x) == Shape("F", OneFile(Weave(FCoords(si, F), NoDeco(M(si))), x), "ok", FOpx(mx, x), FOpt(mx, x))
\* one item with failing lines
F1(si, idx, px, mx) == FShape(si, [i \in 1..M(si) |-> IF i = idx THEN FailPats(Reps(si)[i])[px] ELSE "none"], mx, si + idx + px)
\* two items
F2(si, i1, i2, mx) == FShape(si, [i \in 1..M(si) |-> IF i = i1 THEN FailPats(Reps(si)[i])[1]
                                                     ELSE IF i = i2 THEN FailPats(Reps(si)[i])[NPats(si, i)] ELSE "none"],
                             mx, si + i1 + 3 * i2)
\* every line
F3(si, mx) == FShape(si, [i \in 1..M(si) |-> "all"], mx, si + mx)
FIdx == {y \in (2..NS) \X (1..8) \X (1..4) : y[2] <= M(y[1]) /\ y[3] <= NPats(y[1], y[2])}
FPairs == {y \in (2..NS) \X (1..8) \X (1..8) : y[2] < y[3] /\ y[3] <= M(y[1])}
FamFQ == {F1(x[1], x[2], x[3], ((x[1] + x[2] + x[3]) % 2) + 1) : x \in FIdx}
         \cup {F1(x[1], x[2], 1, 3 + ((x[1] + x[2]) % 2)) : x \in {y \in FIdx : y[3] = 1}}
         \cup {F2(si, 1, M(si), (si % 2) + 1) : si \in 3..NS}
         \cup {F3(si, (si % 2) + 1) : si \in 2..NS}
FamFT == {F1(x[1], x[2], x[3], mx) : x \in FIdx, mx \in 1..4}
         \cup {F2(x[1], x[2], x[3], mx) : x \in FPairs, mx \in 1..3}
         \cup {F3(si, mx) : si \in 2..NS, mx \in 1..4}

\* ---- family G: more decimals than anybody needs --------------------------------------
\* (-d is "number of decimals in output", any natural number; up to Binary64Decimals the digits
\* are those of the library's number, beyond that zeros.)  Small inputs only: a line of 4 numbers
\* with 100000 decimals is 400 kB.  Operations whose results are exact in binary64 (the binding
\* names them), so that every digit can be compared.
BigDecs  == <<15, 400, 65535, 65536, 100000>>
ExactOps == <<1, 2, 4>>
G1(dx, D, mx, ox, zt) == Shape("G", OneFile(SmallItems, dx + D), "ok", ExactOps[ox],
                               Opt(Modes[mx].inv, Modes[mx].rt, zt % 2 = 1, (zt \div 2) % 2 = 1, BigDecs[dx], D))
FamGQ == {G1(dx, D, ((dx + D) % 4) + 1, ((dx + 2 * D) % 3) + 1, (dx + D) % 4) : dx \in 1..5, D \in 1..4}
FamGT == {G1(dx, D, mx, ox, (dx + D + mx + ox) % 4) : dx \in 1..5, D \in 1..4, mx \in 1..4, ox \in 1..3}

\* ---- family H: coordinate lines that fail in BOTH passes of --roundtrip ----------------
\* (a NaN line under an operation that reports NaN tuples in either direction: operation 7).
\* The two passes report the same number, so --roundtrip has no reason to refuse: every line
\* is printed, the failing ones as NaN, all others as their own residuals.  Same positions
\* as family F, all four modes.
HCoords(si, F) == [idx \in 1..M(si) |-> CoordX(Reps(si)[idx], 2 + (idx % 3), "dec", FALSE, F[idx], "both", "sp")]
HDecs == <<0, 3, 6>>
HOpt(mx, x) == Opt(Modes[mx].inv, Modes[mx].rt, x % 2 = 1, (x \div 2) % 2 = 1, HDecs[(x % 3) + 1], (x % 4) + 1)
HShape(si, F, mx, x) == Shape("H", OneFile(Weave(HCoords(si, F), NoDeco(M(si))), x), "ok", 7, HOpt(mx, x))
H1(si, idx, px, mx) == HShape(si, [i \in 1..M(si) |-> IF i = idx THEN FailPats(Reps(si)[i])[px] ELSE "none"], mx, si + idx + px)
H2(si, i1, i2, mx) == HShape(si, [i \in 1..M(si) |-> IF i = i1 THEN FailPats(Reps(si)[i])[1]
                                                     ELSE IF i = i2 THEN FailPats(Reps(si)[i])[NPats(si, i)] ELSE "none"],
                             mx, si + i1 + 3 * i2)
H3(si, mx) == HShape(si, [i \in 1..M(si) |-> "all"], mx, si + mx)
\* three single lines, the failing one first / in the middle / last, every mode, every -D
H0(pos, mx, x) == Shape("H", OneFile([i \in 1..3 |-> CoordX("one", 2 + (i % 3), "dec", FALSE, IF i = pos THEN "all" ELSE "none", "both", "sp")], x),
                        "ok", 7, HOpt(mx, x))
FamHQ == {H0(pos, mx, pos + mx) : pos \in 1..3, mx \in 1..4}
         \cup {H1(x[1], x[2], x[3], 3 + ((x[1] + x[2] + x[3]) % 2)) : x \in {y \in FIdx : y[1] \in {2, 3, 5, 6, 9}}}
         \cup {H1(x[1], x[2], 1, 1 + ((x[1] + x[2]) % 2)) : x \in {y \in FIdx : y[3] = 1 /\ y[1] \in {3, 4, 8}}}
         \cup {H2(si, 1, M(si), 3 + (si % 2)) : si \in {3, 5, 7}}
         \cup {H3(si, 3 + (si % 2)) : si \in {2, 4}}
FamHT == {H0(pos, mx, x) : pos \in 1..3, mx \in 1..4, x \in 0..11}
         \cup {H1(x[1], x[2], x[3], mx) : x \in FIdx, mx \in 1..4}
         \cup {H2(x[1], x[2], x[3], mx) : x \in FPairs, mx \in 3..4}
         \cup {H3(si, mx) : si \in 2..NS, mx \in 1..4}

\* ---- family S: surplus columns, separators, line terminators ---------------------------
Seps == <<"sp", "tab", "multi">>
SurplusCols == <<5, 6, 9>>
ColsS(cp, idx, rep) ==
    CASE cp = 1 -> IF rep = "fill" THEN 10 ELSE SurplusCols[(idx % 3) + 1]     \* a mixture of 1..7 / 5, 6, 9
      [] cp = 2 -> 6
      [] cp = 3 -> IF idx = 1 THEN 9 ELSE IF rep = "fill" THEN 0 ELSE 4          \* only the very first line
      [] cp = 4 -> IF rep = "fill" THEN 0 ELSE (idx % 4) + 1                      \* no surplus (separators only)
CoordsS(si, cp, fp, tp, sx) ==
    [idx \in 1..M(si) |-> CoordX(Reps(si)[idx], ColsS(cp, idx, Reps(si)[idx]), FormFor(fp, idx), TailFor(tp, idx),
                                 "none", "dom", Seps[IF sx = 4 THEN (idx % 3) + 1 ELSE sx])]
\* S1: whole batches of lines with surplus columns, every separator
S1(si, cp, fp, sx) == Shape("S", OneFile(Weave(CoordsS(si, cp, fp, 1 + (si % 2), sx), NoDeco(M(si))), si + cp),
                            "ok", ((si + cp + sx) % NOps) + 1, RotOpt(29 * si + 7 * cp + 3 * fp + sx))
\* S2: fourteen single lines (1-4 and surplus columns, both notations, every separator, trailing comments),
\* a comment after the seventh and a blank line after the tenth, terminated by LF / CR LF / CR
SmallSCols == <<1, 2, 3, 4, 5, 6, 9, 4, 3, 2, 1, 6, 5, 7>>
SmallS == [idx \in 1..14 |-> CoordX("one", SmallSCols[idx], IF idx % 2 = 0 THEN "sexa" ELSE "dec", idx % 5 = 0,
                                    "none", "dom", Seps[(idx % 3) + 1])]
NLs == <<"lf", "crlf", "cr">>
S2(x, nlx, opx) == Shape("S", WithNl(OneFile(Weave(SmallS, DecoAt2(14, 7, 2, 10, 1)), x), <<NLs[nlx]>>), "ok", opx, CmpOpt(x))
\* S3: tabs / repeated blanks and CR LF, blank lines and comments in every gap (so also on both sides of
\* every batch boundary), the input cut into two files with different terminators
BaseS(si, cp, sx) == Weave(CoordsS(si, cp, 3, 2, sx), DecoAll(M(si)))
S3(si, cp, sx, nlx, c) == Shape("S", WithNl(MkFiles(Cut(BaseS(si, cp, sx), <<c>>), Srcs(2, si + c)), <<NLs[nlx], NLs[3 - nlx]>>),
                                "ok", ((si + c + sx) % NOps) + 1, RotOpt(31 * si + 5 * c + sx + nlx))
S3one(si, cp, sx) == Shape("S", WithNl(OneFile(BaseS(si, cp, sx), si), <<"crlf">>),
                           "ok", ((si + sx) % NOps) + 1, RotOpt(37 * si + sx))
\* S4: files with lone carriage returns: k lines of c columns (alone, or after a file of ordinary lines)
CRLines(k, c, sx) == [idx \in 1..k |-> CoordX("one", c, "dec", FALSE, "none", "dom", Seps[sx])]
S4(k, c, sx, x) == Shape("S", WithNl(OneFile(CRLines(k, c, sx), x), <<"cr">>), "ok", (x % NOps) + 1, CmpOpt(x))
S4two(k, c, x) == Shape("S", WithNl(MkFiles(<<CRLines(2, 3, 1), CRLines(k, c, 1)>>, Srcs(2, x)), <<"lf", "cr">>),
                        "ok", (x % NOps) + 1, CmpOpt(x))
LenBS(si) == 2 * M(si) + 1
FamSQ == {S1(si, cp, 3, 4) : si \in {2, 5, 6}, cp \in 1..3}
         \cup {S1(si, 4, 1, sx) : si \in {3, 4}, sx \in 2..3}
         \cup {S2(x, (x % 3) + 1, ((x + (x \div 4)) % NOps) + 1) : x \in {y \in 0..(NCmp - 1) : y % 4 = 1}}
         \cup {S3(si, 1 + (si % 4), 2 + (si % 3), 1 + (si % 2), LenBS(si) \div 2) : si \in {2, 4, 5, 9}}
         \cup {S3one(si, 4, 4) : si \in {4, 6}}
         \cup {S4(k, c, 1 + ((k + c) % 3), 16 * k + c) : k \in 1..4, c \in {1, 2, 4}}
         \cup {S4two(k, 2, 5 * k) : k \in {1, 3}}
FamST == {S1(si, cp, fp, sx) : si \in 2..NS, cp \in 1..3, fp \in {1, 3}, sx \in {1, 4}}
         \cup {S1(si, 4, fp, sx) : si \in 2..NS, fp \in {1, 3}, sx \in 2..4}
         \cup {S2(x, nlx, ((x + (x \div 4)) % NOps) + 1) : x \in 0..(NCmp - 1), nlx \in 1..3}
         \cup {S3(x[1], cp, 2 + ((x[1] + x[2]) % 3), nlx, x[2]) :
                   x \in {y \in (2..NS) \X (0..17) : y[2] <= LenBS(y[1]) /\ (y[1] + y[2]) % 2 = 0}, cp \in {1, 4}, nlx \in 1..2}
         \cup {S3one(si, cp, sx) : si \in 2..NS, cp \in {1, 4}, sx \in 2..4}
         \cup {S4(k, c, sx, 16 * k + c + 48 * sx) : k \in 1..5, c \in 1..5, sx \in 1..3}
         \cup {S4two(k, c, 5 * k + c) : k \in 1..4, c \in 1..4}

ShapesQ == FamAQ \cup FamBQ \cup FamCQ \cup FamDQ \cup FamEQ \cup FamFQ \cup FamGQ \cup FamHQ \cup FamSQ
ShapesT == FamAT \cup FamBT \cup FamCT \cup FamDT \cup FamET \cup FamFT \cup FamGT \cup FamHT \cup FamST

\* the sexagesimal notations with their values, for the binding
ASSUME PrintT(<<"SEXA", ToJson([tab |-> SexaTable])>>)
=============================================================================
