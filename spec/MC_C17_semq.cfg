SPECIFICATION PjSpec
CONSTANTS
  NaN = NaN
  PjCases <- SemCasesQ
  PjMaxChoices = 0
  PjData <- D2
  PjResources <- Res
INVARIANTS PjTypeOK PassIsGeodesy InvIsInverse LocalsWin RewrittenLocalsWin OrderKept OmitMeaning CanonAgrees EmitPj
CHECK_DEADLOCK FALSE
