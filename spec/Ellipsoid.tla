------------------------------ MODULE Ellipsoid ------------------------------
(***************************************************************************)
(* C06 (partial): "Ellipsoid geometry: conversions, geodesics, latitudes   *)
(* and constants are coherent".                                            *)
(*                                                                         *)
(* Most of C06 is real-valued numerics.  This module is its DISCRETE part: *)
(*                                                                         *)
(*  1. the built-in ellipsoid TABLE as PUBLISHED constants (exact decimal  *)
(*     numbers, held as integers): name, semi-major axis, and the shape as *)
(*     the source defines it - reciprocal flattening, semi-minor axis, or  *)
(*     "sphere".  Transcribed from PROJ's ellipsoid list (`proj -le`, the  *)
(*     list the crate says it imported) with the EPSG definition as an     *)
(*     alternative where the two sources publish different numbers.        *)
(*  2. the CATALOGUE OF IDENTITIES of the C06 statement; per identity: the *)
(*     ellipsoids it is quantified over, the integer LATTICE of arguments, *)
(*     the ACCURACY CLASS, and the SPECIAL POINTS (poles, equator, height  *)
(*     zero) the lattice must contain.                                     *)
(*                                                                         *)
(* TLC enumerates every obligation  identity x ellipsoid x lattice point   *)
(* (one state each), checks the invariants below on the catalogue itself,  *)
(* and exports the obligations (Emit); harness/src/bin/gvh_ellps.rs        *)
(* evaluates each of them on the real library through its public API.      *)
(*                                                                         *)
(* Units.  Angles: millidegrees (integers).  Heights: metres.  Geodesic    *)
(* lengths: arcs in millidegrees of the semi-major axis (s = a * arc), so  *)
(* that the lattice is meaningful on the unit sphere as well; 170 degrees  *)
(* of GRS80's axis are 18 924 km (the statement: "up to 19 000 km").       *)
(* Tolerances: nm = 1e-9 m; nm_a = 1e-9 m x a / 6378137 m (scales with the *)
(* axis); frad = 1e-15 rad; frel = 1e-15 relative.                         *)
(***************************************************************************)
EXTENDS Integers, Sequences, FiniteSets, TLC, Json

CONSTANT Tier            \* "q" (quick) or "t" (thorough)
Q == Tier = "q"

Abs(x) == IF x < 0 THEN 0 - x ELSE x
Pow10(n) == CASE n = 0 -> 1 [] n = 1 -> 10 [] n = 2 -> 100 [] n = 3 -> 1000 [] n = 4 -> 10000 [] n = 5 -> 100000
              [] n = 6 -> 1000000 [] n = 7 -> 10000000 [] n = 8 -> 100000000 [] n = 9 -> 1000000000

(***************************************************************************)
(* 1. The table.  A published decimal number  i.f  with d digits after the *)
(* point is the triple (i, f, d): 298.257222101 = (298, 257222101, 9).     *)
(* The semi-major axis is (am, af) = metres and ten-thousandths of a metre.*)
(***************************************************************************)
Rf(i, f, d) == [k |-> "rf", i |-> i, f |-> f, d |-> d]      \* reciprocal flattening
Bx(i, f, d) == [k |-> "b",  i |-> i, f |-> f, d |-> d]      \* semi-minor axis, metres
Sph         == [k |-> "sphere", i |-> 0, f |-> 0, d |-> 0]  \* b = a
\* pubs: the published definitions of the shape; the entry is right if it agrees with one of them
E(name, am, af, pubs) == [name |-> name, src |-> "table", am |-> am, af |-> af, pubs |-> pubs]

Table == <<
    E("MERIT",     6378137,    0, {Rf(298, 257, 3)}),
    E("SGS85",     6378136,    0, {Rf(298, 257, 3)}),
    E("GRS80",     6378137,    0, {Rf(298, 257222101, 9)}),                             \* EPSG 7019
    E("IAU76",     6378140,    0, {Rf(298, 257, 3)}),
    E("airy",      6377563, 3960, {Rf(299, 3249646, 7), Bx(6356256, 910, 3)}),          \* EPSG 7001; older PROJ lists give b
    E("APL4.9",    6378137,    0, {Rf(298, 25, 2)}),
    E("NWL9D",     6378145,    0, {Rf(298, 25, 2)}),
    E("mod_airy",  6377340, 1890, {Bx(6356034, 446, 3), Rf(299, 3249646, 7)}),          \* PROJ gives b; EPSG 7002 gives rf
    E("andrae",    6377104, 4300, {Rf(300, 0, 0)}),
    E("danish",    6377019, 2563, {Rf(300, 0, 0)}),
    E("aust_SA",   6378160,    0, {Rf(298, 25, 2)}),                                    \* EPSG 7003
    E("GRS67",     6378160,    0, {Rf(298, 247167427, 9)}),                             \* EPSG 7036
    E("GSK2011",   6378136, 5000, {Rf(298, 2564151, 7)}),                               \* EPSG 1025
    E("bessel",    6377397, 1550, {Rf(299, 1528128, 7)}),                               \* EPSG 7004
    E("bess_nam",  6377483, 8650, {Rf(299, 1528128, 7)}),                               \* EPSG 7046
    E("clrk66",    6378206, 4000, {Bx(6356583, 8, 1)}),                                 \* EPSG 7008
    E("clrk80",    6378249, 1450, {Rf(293, 4663, 4)}),
    E("clrk80ign", 6378249, 2000, {Bx(6356515, 0, 0)}),                                 \* EPSG 7011
    E("CPM",       6375738, 7000, {Rf(334, 29, 2)}),
    E("delmbr",    6376428,    0, {Rf(311, 5, 1)}),
    E("engelis",   6378136,  500, {Rf(298, 2566, 4)}),
    E("evrst30",   6377276, 3450, {Rf(300, 8017, 4)}),                                  \* EPSG 7015
    E("evrst48",   6377304,  630, {Rf(300, 8017, 4)}),                                  \* EPSG 7018
    E("evrst56",   6377301, 2430, {Rf(300, 8017, 4)}),
    E("evrst69",   6377295, 6640, {Rf(300, 8017, 4)}),                                  \* EPSG 7056
    E("evrstSS",   6377298, 5560, {Rf(300, 8017, 4)}),                                  \* EPSG 7016
    E("fschr60",   6378166,    0, {Rf(298, 3, 1)}),
    E("fschr60m",  6378155,    0, {Rf(298, 3, 1)}),
    E("fschr68",   6378150,    0, {Rf(298, 3, 1)}),
    E("helmert",   6378200,    0, {Rf(298, 3, 1)}),                                     \* EPSG 7020
    E("hough",     6378270,    0, {Rf(297, 0, 0)}),                                     \* EPSG 7053
    E("intl",      6378388,    0, {Rf(297, 0, 0)}),                                     \* EPSG 7022
    E("krass",     6378245,    0, {Rf(298, 3, 1)}),                                     \* EPSG 7024
    E("kaula",     6378163,    0, {Rf(298, 24, 2)}),
    E("lerch",     6378139,    0, {Rf(298, 257, 3)}),
    E("mprts",     6397300,    0, {Rf(191, 0, 0)}),
    E("new_intl",  6378157, 5000, {Bx(6356772, 2, 1)}),
    E("plessis",   6376523,    0, {Bx(6355863, 0, 0), Rf(308, 64, 2)}),                 \* PROJ gives b; EPSG 7027 gives rf
    E("PZ90",      6378136,    0, {Rf(298, 25784, 5), Rf(298, 257839303, 9)}),          \* PROJ; EPSG 7054
    E("SEasia",    6378155,    0, {Bx(6356773, 3205, 4)}),
    E("walbeck",   6376896,    0, {Bx(6355834, 8467, 4)}),
    E("WGS60",     6378165,    0, {Rf(298, 3, 1)}),
    E("WGS66",     6378145,    0, {Rf(298, 25, 2)}),                                    \* EPSG 7025
    E("WGS72",     6378135,    0, {Rf(298, 26, 2)}),                                    \* EPSG 7043
    E("WGS84",     6378137,    0, {Rf(298, 257223563, 9)}),                             \* EPSG 7030
    E("sphere",    6370997,    0, {Sph}),
    \* not a published figure of the Earth: the crate's own entry, defined by its name ("Unit Sphere (r=1)")
    E("unitsphere",      1,    0, {Sph}) >>

AllTable == {Table[i] : i \in 1..Len(Table)}
Names == {Table[i].name : i \in 1..Len(Table)}

\* "a,rf": ellipsoids that are not in the table ("any ellipsoid with flattening up to 1/150")
Syn(am, rf) == [name |-> ToString(am) \o "," \o ToString(rf), src |-> "syn", am |-> am, af |-> 0, pubs |-> {Rf(rf, 0, 0)}]
SynAll == {Syn(6378137, 150), Syn(6400000, 191), Syn(6300000, 250), Syn(6378137, 1000), Syn(6378137, 1000000)}
SynQuick == {Syn(6378137, 150)}

IsSphere(e) == Sph \in e.pubs
Cls(e) == IF e.am < 1000 THEN "unit" ELSE "earth"            \* metre lattices (heights) make no sense on the unit sphere

QuickNames == {"GRS80", "intl", "bessel", "mprts", "sphere", "unitsphere"}
\* the ellipsoids the lattice identities are evaluated on
LatticeEllps == IF Q THEN {e \in AllTable : e.name \in QuickNames} \cup SynQuick ELSE AllTable \cup SynAll

(***************************************************************************)
(* 2. The catalogue of identities.  An identity is [fam, kind, sub].       *)
(***************************************************************************)
Id(f, k, s) == [fam |-> f, kind |-> k, sub |-> s]
IdName(id) == id.fam \o "." \o (IF id.kind = "-" THEN "" ELSE id.kind \o ".") \o id.sub

\* "every name can be instantiated and carries the published a and 1/f" (named: Ellipsoid::named; triaxial:
\* TriaxialEllipsoid::named, semi-median axis = a; op: the same constants seen through an operator's ellps=)
TableIds == {Id("table", "-", s) : s \in {"named", "triaxial", "op"}}
\* "derived shape parameters satisfy their defining identities"
ShapeSubs == {"es",        \* e^2 = f (2 - f)
              "b",         \* b = a (1 - f)
              "n",         \* n = f / (2 - f)
              "n_axes",    \* n = (a - b) / (a + b)
              "eps",       \* e'^2 = e^2 / (1 - e^2)
              "eps_axes",  \* e'^2 = (a^2 - b^2) / b^2
              "g",         \* second flattening (a - b) / b = f / (1 - f)
              "aspect",    \* a / b = 1 / (1 - f)
              "E",         \* linear eccentricity sqrt(a^2 - b^2) = a e
              "e",         \* e = sqrt(e^2), e' = sqrt(e'^2)
              "c",         \* polar radius of curvature a^2 / b
              "aliases",   \* a() = semimajor_axis(), f() = flattening(), semimedian_axis() = a
              "Qn"}        \* rectifying radius = a * normalized meridian arc unit; quadrant = pi/2 of it
ShapeIds == {Id("shape", "-", s) : s \in ShapeSubs}
\* geographic -> cartesian -> geographic.  op: the `cart` operator through Context::apply; closed: the
\* single-step closed form GeoCart::cartesian / GeoCart::geographic.   rt: the round trip; def: the forward
\* mapping agrees with its textbook definition; surface: height-zero points satisfy X^2/a^2 + Y^2/a^2 + Z^2/b^2 = 1
CartIds == {Id("cart", k, s) : k \in {"op", "closed"}, s \in {"rt", "def", "surface"}}
\* geodesics.  consistent: inverse(P1, direct(P1, az, s)) = (az, s) and the azimuths at P2 agree;
\* symmetric: s12 = s21 and the azimuths are reversed; meridian / equator: arcs of a meridian (independent
\* quadrature of the defining integral) and a * dlon; sphere: great circles; op: the `geodesic` operator
\* agrees with the Geodesics trait
GeodIds == {Id("geod", "-", s) : s \in {"consistent", "symmetric", "meridian", "equator", "sphere", "op"}}
\* the six auxiliary latitudes of the `latitude` operator (parametric is another name of reduced), and
\* the isometric latitude of the Latitudes trait (not "auxiliary": unbounded at the poles)
AuxKinds == {"geocentric", "reduced", "parametric", "conformal", "authalic", "rectifying"}
LatKinds == AuxKinds \cup {"isometric"}
LatSubs == {"odd", "fix", "mono", "rt", "def"}
LatIds == {Id("lat", k, s) : k \in LatKinds, s \in LatSubs}
\* meridian distance and latitude are mutual inverses (inverse), the distance is the arc of the meridian (def)
MerIds == {Id("mer", "-", s) : s \in {"inverse", "def"}}
\* radii of curvature: M, N by definition; at the poles M = N = a^2/b; at the equator N = a, M = b^2/a
CurvIds == {Id("curv", "-", s) : s \in {"def", "pole", "equator"}}

Ids == TableIds \cup ShapeIds \cup CartIds \cup GeodIds \cup LatIds \cup MerIds \cup CurvIds

\* ---- which ellipsoids an identity is quantified over --------------------------------------------
EllsFor(id) ==
    CASE id.fam = "table" -> AllTable                                \* exhaustively, in both tiers
      [] id.fam = "shape" -> AllTable \cup SynAll                    \* exhaustively, in both tiers
      [] id.fam = "geod" /\ id.sub = "sphere" -> {e \in LatticeEllps : IsSphere(e)}
      [] OTHER -> LatticeEllps

\* ---- accuracy classes ------------------------------------------------------------------------------
\* classes of the C06 statement
\*   um1    1 micrometre    the cart operator, heights -10 .. 100 km
\*   cm1    1 centimetre    the single-step closed form, heights -10 .. 100 km
\*   rad12  1e-12 rad       auxiliary latitudes: round trip (and, the statement naming no other number for
\*                          them: odd, fixed points, agreement with the closed form)
\* classes chosen by measuring the unchanged tree (>= 100 x the worst case found, never below 1e-11 relative;
\* every run writes the worst cases it measured into evidence/C06.json, coverage.tolerances)
\*   pub9   1e-9 relative   published constants (how precisely a constant is published, not how it is stored)
\*   rel11  1e-11 relative  defining identities of shape parameters, curvatures, the ellipsoid equation
\*   strict 0               strict monotonicity: f(lat_i) < f(lat_j) for neighbours lat_i < lat_j of the lattice
\*   geo_c  1 mm of a 6 378 137 m axis (scaled with a): direct / inverse geodesic problems against each other, end
\*          points exchanged, great circles on spheres.  Measured worst case 6.4 micrometres (the stopping
\*          criterion of the iterations, 1e-12 rad) for arcs up to 170 degrees, f up to 1/150.
\*   geo_a  1 cm of the axis: geodesics against the defining integral of the meridian arc and a * dlon.  Vincenty's
\*          series are truncated: measured worst case 0.07 mm at f = 1/150 (0.014 mm on mprts, f = 1/191).
\*   mer    10 cm of the axis: Bowring's (1983) meridian distance and its inverse, against the defining integral
\*          and against each other; measured worst case 0.9 mm at f = 1/150 (0.3 mm on mprts).
\*   iso    isometric latitude (dimensionless, unbounded): 1e-11 relative, 1 being the smallest scale
Classes == {"um1", "cm1", "rad12", "pub9", "rel11", "strict", "geo_c", "geo_a", "mer", "iso"}
Tol(cls) == CASE cls = "um1"    -> [tol |-> 1000,      unit |-> "nm"]
              [] cls = "cm1"    -> [tol |-> 10000000,  unit |-> "nm"]
              [] cls = "rad12"  -> [tol |-> 1000,      unit |-> "frad"]
              [] cls = "pub9"   -> [tol |-> 1000000,   unit |-> "frel"]
              [] cls = "rel11"  -> [tol |-> 10000,     unit |-> "frel"]
              [] cls = "strict" -> [tol |-> 0,         unit |-> "order"]
              [] cls = "geo_c"  -> [tol |-> 1000000,   unit |-> "nm_a"]
              [] cls = "geo_a"  -> [tol |-> 10000000,  unit |-> "nm_a"]
              [] cls = "mer"    -> [tol |-> 100000000, unit |-> "nm_a"]
              [] cls = "iso"    -> [tol |-> 10000,     unit |-> "frel"]

Class(id) ==
    CASE id.fam = "table" -> "pub9"
      [] id.fam \in {"shape", "curv"} -> "rel11"
      [] id.fam = "cart" /\ id.sub = "surface" -> "rel11"
      [] id.fam = "cart" /\ id.kind = "op" -> "um1"
      [] id.fam = "cart" /\ id.kind = "closed" /\ id.sub = "rt" -> "cm1"
      [] id.fam = "cart" /\ id.kind = "closed" /\ id.sub = "def" -> "um1"
      [] id.fam = "lat" /\ id.sub = "mono" -> "strict"
      [] id.fam = "lat" /\ id.kind = "isometric" -> "iso"
      [] id.fam = "lat" -> "rad12"
      [] id.fam = "geod" /\ id.sub = "op" -> "rel11"
      [] id.fam = "geod" /\ id.sub \in {"meridian", "equator"} -> "geo_a"
      [] id.fam = "geod" -> "geo_c"
      [] id.fam = "mer" -> "mer"

\* ---- lattices -------------------------------------------------------------------------------------
\* latitudes (millidegrees): the poles, the equator, 0.001 degrees from either, high latitudes;
\* thorough: every third degree besides (cart, curvatures, meridians) / every degree (latitudes)
Specials == {0, 1, 1000, 5000, 85000, 89000, 89900, 89999, 90000}
LatsPos == IF Q THEN {0, 1, 15000, 30000, 45000, 60000, 75000, 85000, 89900, 89999, 90000}
           ELSE Specials \cup {3000 * k : k \in 0..30}
FineLatsPos == IF Q THEN Specials \cup {5000 * k : k \in 0..18} ELSE Specials \cup {1000 * k : k \in 0..90}
Mirror(S) == S \cup {0 - x : x \in S}
Lats == Mirror(LatsPos)
FineLats == Mirror(FineLatsPos)
Lons == IF Q THEN {-180000, -120000, 0, 12000, 179999}
        ELSE {-180000, -120000, -45000, -1, 0, 12000, 90000, 135000, 179999}
\* heights: "-10 to 100 km"
Heights(e) == IF Cls(e) = "unit" THEN {0}
              ELSE IF Q THEN {-10000, 0, 100000} ELSE {-10000, -100, 0, 1, 8848, 100000}
GeoPts(lons, lats, hs) == {<<lo, la, h, 0>> : lo \in lons, la \in lats, h \in hs}

\* neighbours of a finite set of integers
Neighbours(S) == {p \in S \X S : p[1] < p[2] /\ ~ \E z \in S : p[1] < z /\ z < p[2]}

\* geodesics, direct problem: start latitude, azimuth, arc (all millidegrees), start longitude.
\* Azimuths are undefined at a pole: start latitudes end at 89 degrees.  Arcs end at 170 degrees: the
\* documented near-antipodal zone of non-convergence of Vincenty's inverse lies beyond.
GLats == IF Q THEN {-89000, -60000, -1000, 0, 30000, 45000, 89000} ELSE {-89000, -60000, -30000, -1000, 0, 1000, 30000, 45000, 60000, 80000, 89000}
Azs   == IF Q THEN {0, 1000, 45000, 90000, 135000, 180000, 200000, 270000, 359000}
         ELSE {0, 1000, 30000, 45000, 60000, 89000, 90000, 91000, 120000, 135000, 150000, 179000, 180000, 200000, 225000, 270000, 300000, 330000, 359000}
\* arc 0: the two problems degenerate (no distance, no direction)
Arcs  == IF Q THEN {0, 1, 1000, 45000, 90000, 135000, 170000} ELSE {0, 1, 10, 1000, 10000, 30000, 45000, 60000, 90000, 120000, 135000, 150000, 160000, 170000}
GLons == IF Q THEN {12000} ELSE {12000, -170000}
GeodPts == {<<la, az, ar, lo>> : la \in GLats, az \in Azs, ar \in Arcs, lo \in GLons}
\* two latitudes on one meridian; across = 0: same longitude, the arc between them; across = 1: the second point lies
\* on the opposite meridian (lon + 180 degrees) and the geodesic runs over the nearer pole - the separation
\* 180 - |lat1 + lat2| degrees must stay outside the near-antipodal zone as well
MLats == IF Q THEN {-90000, -45000, 0, 30000, 60000, 90000} ELSE {-90000, -80000, -60000, -30000, -5000, 0, 1, 15000, 45000, 75000, 89000, 90000}
MeridianPts == {<<p[1], p[2], lo, 0>> : p \in {q \in MLats \X MLats : q[1] # q[2] /\ Abs(q[2] - q[1]) <= 170000}, lo \in {12000}}
          \cup {<<p[1], p[2], lo, 1>> : p \in {q \in MLats \X MLats : Abs(q[1]) < 90000 /\ Abs(q[2]) < 90000 /\ Abs(q[1] + q[2]) >= 10000}, lo \in {12000}}
\* two longitudes on the equator
ELons == IF Q THEN {-170000, -10000, 0, 12000, 150000} ELSE {-179000, -170000, -90000, -10000, -1, 0, 12000, 90000, 150000, 179000}
EquatorPts == {<<p[1], p[2], 0, 0>> : p \in {q \in ELons \X ELons : q[1] # q[2] /\ Abs(q[2] - q[1]) <= 170000}}

One == {<<0, 0, 0, 0>>}
LatsOf(id) == IF id.kind = "isometric" THEN FineLats \ {-90000, 90000} ELSE FineLats

Pts(id, e) ==
    CASE id.fam \in {"table", "shape"} -> One
      [] id.fam = "cart" /\ id.sub = "surface" -> GeoPts(Lons, Lats, {0})
      [] id.fam = "cart" -> GeoPts(Lons, Lats, Heights(e))
      [] id.fam = "geod" /\ id.sub \in {"consistent", "symmetric", "sphere", "op"} -> GeodPts
      [] id.fam = "geod" /\ id.sub = "meridian" -> MeridianPts
      [] id.fam = "geod" /\ id.sub = "equator" -> EquatorPts
      [] id.fam = "lat" /\ id.sub = "odd" -> {<<la, 0, 0, 0>> : la \in {x \in LatsOf(id) : x >= 0}}
      [] id.fam = "lat" /\ id.sub = "fix" -> {<<la, 0, 0, 0>> : la \in LatsOf(id) \cap {-90000, 0, 90000}}
      [] id.fam = "lat" /\ id.sub = "mono" -> {<<p[1], p[2], 0, 0>> : p \in Neighbours(LatsOf(id))}
      [] id.fam = "lat" -> {<<la, 0, 0, 0>> : la \in LatsOf(id)}
      [] id.fam = "mer" -> {<<la, 0, 0, 0>> : la \in Lats}
      [] id.fam = "curv" /\ id.sub = "def" -> {<<la, 0, 0, 0>> : la \in Lats}
      [] id.fam = "curv" /\ id.sub = "pole" -> {<<-90000, 0, 0, 0>>, <<90000, 0, 0, 0>>}
      [] id.fam = "curv" /\ id.sub = "equator" -> One

\* ---- the domain of the statement ------------------------------------------------------------------
InDomain(id, e, p) ==
    CASE id.fam \in {"table", "shape"} -> p \in One
      [] id.fam = "cart" -> Abs(p[1]) <= 180000 /\ Abs(p[2]) <= 90000 /\ p[3] >= -10000 /\ p[3] <= 100000
                            /\ (id.sub = "surface" => p[3] = 0) /\ (Cls(e) = "unit" => p[3] = 0)
      [] id.fam = "geod" /\ id.sub \in {"consistent", "symmetric", "sphere", "op"} ->
                            Abs(p[1]) <= 89000 /\ p[2] >= 0 /\ p[2] < 360000 /\ p[3] >= 0 /\ p[3] <= 170000 /\ Abs(p[4]) <= 180000
      [] id.fam = "geod" /\ id.sub = "meridian" ->
                            /\ Abs(p[1]) <= 90000 /\ Abs(p[2]) <= 90000 /\ p[4] \in {0, 1}
                            /\ (p[4] = 0 => p[1] # p[2] /\ Abs(p[2] - p[1]) <= 170000)
                            /\ (p[4] = 1 => 180000 - Abs(p[1] + p[2]) <= 170000 /\ 180000 - Abs(p[1] + p[2]) > 0)
      [] id.fam = "geod" /\ id.sub = "equator" -> Abs(p[1]) <= 180000 /\ Abs(p[2]) <= 180000 /\ p[1] # p[2] /\ Abs(p[2] - p[1]) <= 170000
      [] id.fam = "lat" /\ id.sub = "mono" -> Abs(p[1]) <= 90000 /\ Abs(p[2]) <= 90000 /\ p[1] < p[2]
      [] id.fam = "lat" /\ id.kind = "isometric" -> Abs(p[1]) < 90000
      [] OTHER -> Abs(p[1]) <= 90000

\* ---- special points every lattice must contain -----------------------------------------------------
\* (as predicates on the lattice of the identity, for one ellipsoid)
Has(S, P(_)) == \E p \in S : P(p)
SpecialOK(id, e) ==
    LET S == Pts(id, e) IN
    CASE id.fam = "cart" /\ id.sub = "surface" ->
              /\ \A p \in S : p[3] = 0
              /\ Has(S, LAMBDA p : p[2] = 90000) /\ Has(S, LAMBDA p : p[2] = -90000) /\ Has(S, LAMBDA p : p[2] = 0)
      [] id.fam = "cart" ->
              /\ Has(S, LAMBDA p : p[2] = 90000 /\ p[3] = 0) /\ Has(S, LAMBDA p : p[2] = -90000 /\ p[3] = 0)
              /\ Has(S, LAMBDA p : p[2] = 0 /\ p[3] = 0)
              /\ (Cls(e) = "earth" => Has(S, LAMBDA p : p[3] = -10000) /\ Has(S, LAMBDA p : p[3] = 100000))
              /\ Has(S, LAMBDA p : p[1] = -180000) /\ Has(S, LAMBDA p : p[2] >= 89900 /\ p[2] < 90000)
      [] id.fam = "lat" /\ id.sub = "fix" ->
              IF id.kind = "isometric" THEN S = {<<0, 0, 0, 0>>}
              ELSE S = {<<-90000, 0, 0, 0>>, <<0, 0, 0, 0>>, <<90000, 0, 0, 0>>}
      [] id.fam = "lat" /\ id.sub = "mono" ->
              \* the chain of neighbours runs from one end of the lattice to the other, through the equator
              /\ Cardinality(S) = Cardinality(LatsOf(id)) - 1
              /\ Has(S, LAMBDA p : p[2] = 0) /\ Has(S, LAMBDA p : p[1] = 0)
              /\ (id.kind # "isometric" => Has(S, LAMBDA p : p[1] = -90000) /\ Has(S, LAMBDA p : p[2] = 90000))
      [] id.fam = "lat" /\ id.sub = "odd" -> Has(S, LAMBDA p : p[1] = 0) /\ (id.kind # "isometric" => Has(S, LAMBDA p : p[1] = 90000))
      [] id.fam = "lat" ->
              /\ Has(S, LAMBDA p : p[1] = 0) /\ Has(S, LAMBDA p : p[1] >= 89900) /\ Has(S, LAMBDA p : p[1] <= -89900)
              /\ (id.kind # "isometric" => Has(S, LAMBDA p : p[1] = 90000) /\ Has(S, LAMBDA p : p[1] = -90000))
      [] id.fam = "mer" -> Has(S, LAMBDA p : p[1] = 0) /\ Has(S, LAMBDA p : p[1] = 90000) /\ Has(S, LAMBDA p : p[1] = -90000)
      [] id.fam = "curv" /\ id.sub = "def" -> Has(S, LAMBDA p : p[1] = 0) /\ Has(S, LAMBDA p : p[1] = 90000)
      [] id.fam = "geod" /\ id.sub \in {"consistent", "symmetric", "sphere", "op"} ->
              \* a start on the equator, meridional and equatorial azimuths, the longest arc of the statement
              /\ Has(S, LAMBDA p : p[1] = 0 /\ p[2] = 90000) /\ Has(S, LAMBDA p : p[2] = 0) /\ Has(S, LAMBDA p : p[3] = 170000)
              /\ Has(S, LAMBDA p : p[1] < 0) /\ Has(S, LAMBDA p : p[1] >= 89000) /\ Has(S, LAMBDA p : p[3] = 0)
      [] id.fam = "geod" /\ id.sub = "meridian" ->
              \* from a pole, to a pole, across the equator, both directions
              /\ Has(S, LAMBDA p : p[1] = -90000) /\ Has(S, LAMBDA p : p[2] = 90000) /\ Has(S, LAMBDA p : p[1] < 0 /\ p[2] > 0)
              /\ Has(S, LAMBDA p : p[1] > p[2]) /\ Has(S, LAMBDA p : p[1] = 0)
              \* over the north pole and over the south pole
              /\ Has(S, LAMBDA p : p[4] = 1 /\ p[1] + p[2] > 0) /\ Has(S, LAMBDA p : p[4] = 1 /\ p[1] + p[2] < 0)
      [] id.fam = "geod" /\ id.sub = "equator" ->
              /\ Has(S, LAMBDA p : p[1] < p[2]) /\ Has(S, LAMBDA p : p[1] > p[2]) /\ Has(S, LAMBDA p : Abs(p[2] - p[1]) = 170000)
      [] OTHER -> S # {}

(***************************************************************************)
(* 3. Properties of the catalogue itself (TLC evaluates them once).        *)
(***************************************************************************)
RfNano(p) == p.f * Pow10(9 - p.d)                  \* fraction of a reciprocal flattening in 1e-9
\* no name twice
UniqueNames == Cardinality(Names) = Len(Table)
\* every entry is a sphere or an ellipsoid inside the quantifier of C06 (f <= 1/150), axes of the Earth's size;
\* fractions are fractions
WellFormed == \A e \in AllTable \cup SynAll :
    /\ e.pubs # {} /\ e.af >= 0 /\ e.af < 10000
    /\ (Cls(e) = "earth" => e.am >= 6300000 /\ e.am <= 6400000)
    /\ (Cls(e) = "unit" => e.am = 1 /\ e.af = 0 /\ IsSphere(e))
    /\ (IsSphere(e) => e.pubs = {Sph})
    /\ \A p \in e.pubs :
         /\ p.d \in 0..9 /\ p.f >= 0 /\ p.f < Pow10(p.d)
         /\ (p.k = "rf" => p.i >= 150 /\ p.i <= 1000000)
         \* b: 1/400 <= (a - b)/a <= 1/150, to the metre
         /\ (p.k = "b"  => (e.am - p.i) * 150 <= e.am + 150 /\ (e.am - p.i) * 400 >= e.am - 400)
\* where two sources are listed for one entry, they describe the same ellipsoid to the precision of the
\* coarser one: (a - b) * rf = a within the weight of the dropped fractions
AlternativesAgree == \A e \in AllTable : \A p \in e.pubs, q \in e.pubs :
    /\ (p.k = "rf" /\ q.k = "b" => Abs((e.am - q.i) * p.i - e.am) <= (e.am - q.i) + p.i + 1)
    /\ (p.k = "rf" /\ q.k = "rf" => p.i = q.i /\ Abs(RfNano(p) - RfNano(q)) <= 1000000)
\* the comparison class pub9 (1e-9 relative) cannot confuse two different published reciprocal flattenings:
\* two entries defined by rf either share it or differ by more than twice the class (2e-9 * 335 < 700e-9)
Only(e) == CHOOSE p \in e.pubs : TRUE
Distinguishable == \A e1 \in AllTable, e2 \in AllTable :
    (Cardinality(e1.pubs) = 1 /\ Cardinality(e2.pubs) = 1 /\ Only(e1).k = "rf" /\ Only(e2).k = "rf" /\ Only(e1).i = Only(e2).i)
        => (RfNano(Only(e1)) = RfNano(Only(e2)) \/ Abs(RfNano(Only(e1)) - RfNano(Only(e2))) > 700)
\* the quick tier's representatives exist
QuickExist == QuickNames \subseteq Names
\* the accuracy classes are those of the statement
StatementClasses ==
    /\ \A id \in Ids : Class(id) \in Classes
    /\ Tol(Class(Id("cart", "op", "rt"))) = [tol |-> 1000, unit |-> "nm"]              \* 1 micrometre
    /\ Tol(Class(Id("cart", "closed", "rt"))) = [tol |-> 10000000, unit |-> "nm"]      \* 1 cm
    /\ \A k \in AuxKinds : Tol(Class(Id("lat", k, "rt"))) = [tol |-> 1000, unit |-> "frad"]   \* 1e-12 rad
    \* a class chosen by measurement is never tighter than 1e-11 relative (6.4e-5 m = 64000 nm of the axis)
    /\ \A c \in Classes : (Tol(c).unit = "frel" => Tol(c).tol >= 10000) /\ (Tol(c).unit = "nm_a" => Tol(c).tol >= 64000)
ASSUME UniqueNames
ASSUME WellFormed
ASSUME AlternativesAgree
ASSUME Distinguishable
ASSUME QuickExist
ASSUME StatementClasses

(***************************************************************************)
(* 4. Enumeration of the obligations.                                      *)
(***************************************************************************)
CONSTANT Fams            \* the families explored by this instance
FamsC == TLCEval(Fams)
IdsC == TLCEval({id \in Ids : id.fam \in FamsC})
ASSUME FamsC \subseteq {"table", "shape", "cart", "geod", "lat", "mer", "curv"}

VARIABLES id, el, pt
vars == <<id, el, pt>>
NoPt == <<>>

Init == /\ id \in IdsC /\ el \in EllsFor(id) /\ pt = NoPt
\* one obligation: the identity, on the ellipsoid, at one point of its lattice
Pick == /\ pt = NoPt
        /\ \E p \in Pts(id, el) : pt' = p
        /\ UNCHANGED <<id, el>>
Next == Pick
Spec == Init /\ [][Next]_vars

\* every enumerated point lies inside the domain of the statement
DomainInv == pt # NoPt => InDomain(id, el, pt)
\* every lattice contains its mandatory special points (checked where the configuration is chosen)
SpecialInv == pt = NoPt => SpecialOK(id, el)
\* every obligation has a class; the ellipsoid of a lattice identity is one the statement quantifies over
ClassInv == /\ Class(id) \in Classes /\ Tol(Class(id)).tol >= 0
            /\ (id.fam = "geod" /\ id.sub = "sphere" => IsSphere(el))
            /\ (id.fam = "table" => el.src = "table")

\* the number of obligations is what the product says: sum over identities of |ellipsoids| x |lattice|
\* (a lattice depends on the ellipsoid only through its class)
RECURSIVE SumPairs(_)
SumPairs(S) == IF S = {} THEN 0 ELSE LET p == CHOOSE q \in S : TRUE IN p[2] + SumPairs(S \ {p})    \* S: pairs <<key, number>>
NConfigs == SumPairs({<<i, Cardinality(EllsFor(i))>> : i \in IdsC})
PerClass(i, c) == LET Es == {e \in EllsFor(i) : Cls(e) = c}
                  IN IF Es = {} THEN 0 ELSE Cardinality(Es) * Cardinality(Pts(i, CHOOSE e \in Es : TRUE))
NObligations == SumPairs({<<<<i, c>>, PerClass(i, c)>> : i \in IdsC, c \in {"earth", "unit"}})
CountOK == IF TLCGet("stats").distinct = NConfigs + NObligations THEN TRUE
           ELSE Print(<<"COUNT", TLCGet("stats").distinct, NConfigs, NObligations>>, FALSE)

Emit == pt = NoPt =>
    PrintT(<<"OBL", ToJson([id |-> IdName(id), fam |-> id.fam, kind |-> id.kind, sub |-> id.sub,
                             ellps |-> el.name, src |-> el.src, sphere |-> IsSphere(el), ecls |-> Cls(el),
                             am |-> el.am, af |-> el.af, pubs |-> el.pubs,
                             cls |-> Class(id), tol |-> Tol(Class(id)).tol, unit |-> Tol(Class(id)).unit,
                             pts |-> Pts(id, el)])>>)
=============================================================================
