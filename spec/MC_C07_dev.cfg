SPECIFICATION Spec
CONSTANTS
  NaN = NaN
  Cores <- CoresQ
  Epochs <- EpochsQ
  MaxTuples = 3
  MaxFormTuples = 3
  Pos <- Positions
  DevAccumulate = TRUE
INVARIANTS TypeOK OwnEpochInv
CHECK_DEADLOCK FALSE
