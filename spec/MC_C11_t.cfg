SPECIFICATION Spec
CONSTANTS
  FromSet <- All
  ToSet <- All
INVARIANTS InverseInv ToIsInvFromInv ThroughInternalInv PermInv EmitAdapt
CHECK_DEADLOCK FALSE
