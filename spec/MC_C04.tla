------------------------------- MODULE MC_C04 -------------------------------
(* C04: macro parameter binding forms, forwarding through nested macros      *)
(* under names in every lexical order, step-local vs caller values, inverted *)
(* invocations.                                                              *)
EXTENDS Pipeline

L(k, v)     == [k |-> k, v |-> [f |-> "lit", v |-> v]]
R(k, n)     == [k |-> k, v |-> [f |-> "ref", n |-> n]]
RD(k, n, d) == [k |-> k, v |-> [f |-> "refd", n |-> n, d |-> d]]
D(k, d)     == [k |-> k, v |-> [f |-> "dflt", d |-> d]]
S(n, a) == [name |-> n, args |-> a, inv |-> FALSE, of |-> FALSE, oi |-> FALSE]
Mod(s, i, f, o) == [s EXCEPT !.inv = i, !.of = f, !.oi = o]

\* parameter names: every lexical order between inner and outer names occurs
Names == {"a", "m", "z", "_u"}
B == S("t_dbl", <<L("e", 1)>>)

\* every ordered pair, the same name on both sides included: forwarding a parameter under its own name
\* (`m:in q=$q`, `m:in q=$q(d)`, `m:in q=(d)`) is the most natural way to write a wrapper macro, and the
\* arguments of an invocation are resolved in the caller's frame (BindArgs) whatever they are called
Pairs == Names \X Names
\* pairs of distinct names in both lexical orders, for the nested invocations with two arguments
Pairs2 == {<<"a", "z">>, <<"z", "a">>, <<"m", "_u">>, <<"_u", "m">>}
MacroNames ==
         {"m:r_" \o n : n \in Names} \cup {"m:rd_" \o n : n \in Names}
    \cup {"m:d", "m:l", "m:n", "m:e"}
    \cup {"m:f_" \o pq[1] \o "_" \o pq[2] : pq \in Pairs}
    \cup {"m:fd_" \o pq[1] \o "_" \o pq[2] : pq \in Pairs}
    \cup {"m:g_" \o pq[1] \o "_" \o pq[2] : pq \in Pairs}
    \cup {"m:fr_" \o pq[1] \o "_" \o pq[2] : pq \in Pairs}
    \cup {"m:fq_" \o n : n \in Names} \cup {"m:fqd_" \o n : n \in Names}
    \cup {"m:two_" \o pq[1] \o "_" \o pq[2] : pq \in Pairs2}
    \cup {"m:sw_" \o pq[1] \o "_" \o pq[2] : pq \in Pairs2}
    \cup {"m:sh_" \o pq[1] \o "_" \o pq[2] : pq \in Pairs2}
    \cup {"m:pp_" \o n : n \in Names}
    \cup {"m:pi_" \o n : n \in Names}

Body(mn) ==
    LET Find1(pre)  == {n \in Names : mn = pre \o n}
        Find2(pre)  == {pq \in Names \X Names : mn = pre \o pq[1] \o "_" \o pq[2]}
        One(Sx)     == CHOOSE x \in Sx : TRUE
    IN CASE Find1("m:r_")  # {} -> <<S("t_add", <<L("e", 1), R("c", One(Find1("m:r_")))>>)>>
         [] Find1("m:rd_") # {} -> <<S("t_add", <<L("e", 1), RD("c", One(Find1("m:rd_")), 4)>>)>>
         [] mn = "m:d" -> <<S("t_add", <<L("e", 1), D("c", 4)>>)>>
         [] mn = "m:l" -> <<S("t_add", <<L("e", 1), L("c", 2)>>)>>      \* step-local literal wins over a caller's c
         [] mn = "m:n" -> <<S("t_add", <<L("e", 1)>>)>>                 \* no local c: the caller's c is visible
         [] mn = "m:e" -> <<S("t_add", <<L("c", 3)>>), B, S("t_add", <<D("e", 2), L("c", 1)>>)>>
         \* forwarding p as q to a macro that requires q
         [] Find2("m:f_") # {}  -> LET pq == One(Find2("m:f_")) IN <<S("m:r_" \o pq[2], <<R(pq[2], pq[1])>>)>>
         \* forwarding with a default, to a macro with its own default
         [] Find2("m:fd_") # {} -> LET pq == One(Find2("m:fd_")) IN <<S("m:rd_" \o pq[2], <<RD(pq[2], pq[1], 9)>>)>>
         \* forwarding without a default, to a macro with its own default: `q=$p` is an error if p is absent
         \* (the inner default stands in for an absent q, not for an argument that cannot be resolved)
         [] Find2("m:fr_") # {} -> LET pq == One(Find2("m:fr_")) IN <<S("m:rd_" \o pq[2], <<R(pq[2], pq[1])>>)>>
         \* the (d) form on a nested invocation: the caller's value for the same name, else d
         [] Find1("m:fq_") # {}  -> LET n == One(Find1("m:fq_")) IN <<S("m:r_" \o n, <<D(n, 5)>>)>>
         [] Find1("m:fqd_") # {} -> LET n == One(Find1("m:fqd_")) IN <<S("m:rd_" \o n, <<D(n, 5)>>)>>
         \* a macro with two parameters, and nested invocations giving both: every argument is resolved in
         \* the caller's frame, also when the same invocation binds the name it refers to (exchanged
         \* parameters `p=$q(8) q=$p(6)`; one parameter shadowed by a literal `p=$q(8) q=7`)
         [] Find2("m:two_") # {} -> LET pq == One(Find2("m:two_")) IN
                                    <<S("t_add", <<L("e", 1), R("c", pq[1])>>), S("t_add", <<L("e", 2), RD("c", pq[2], 3)>>)>>
         [] Find2("m:sw_") # {}  -> LET pq == One(Find2("m:sw_")) IN
                                    <<S("m:two_" \o pq[1] \o "_" \o pq[2], <<RD(pq[1], pq[2], 8), RD(pq[2], pq[1], 6)>>)>>
         [] Find2("m:sh_") # {}  -> LET pq == One(Find2("m:sh_")) IN
                                    <<S("m:two_" \o pq[1] \o "_" \o pq[2], <<RD(pq[1], pq[2], 8), L(pq[2], 7)>>)>>
         \* two levels of forwarding: p -> "m" or "a" -> q, inside a pipeline
         [] Find2("m:g_") # {}  -> LET pq == One(Find2("m:g_"))
                                      mid == IF pq[1] = "m" \/ pq[2] = "m" THEN (IF pq[1] = "a" \/ pq[2] = "a" THEN "z" ELSE "a") ELSE "m"
                                  IN <<B, S("m:f_" \o mid \o "_" \o pq[2], <<R(mid, pq[1])>>)>>
         \* a pipeline body: every step sees the arguments
         [] Find1("m:pp_") # {} -> LET n == One(Find1("m:pp_")) IN
                                   <<S("t_add", <<L("e", 1), R("c", n)>>), B, S("t_add", <<L("e", 2), RD("c", n, 3)>>)>>
         \* a pipeline body with an inverted and a directional step
         [] Find1("m:pi_") # {} -> LET n == One(Find1("m:pi_")) IN
                                   <<Mod(S("t_add", <<L("e", 1), R("c", n)>>), TRUE, FALSE, FALSE), B,
                                     Mod(S("t_add", <<L("e", 2), RD("c", n, 3)>>), FALSE, TRUE, FALSE)>>

Res == TLCEval([mn \in MacroNames |-> Body(mn)])

\* invocation argument sets: at most two of these
ArgPool == {L("a", 2), L("m", 3), L("z", 5), L("_u", 7), L("c", 6), L("e", 2)}
ArgSets(k) == {<<>>} \cup {<<x>> : x \in ArgPool}
              \cup (IF k >= 2 THEN {<<x, y>> : x \in ArgPool, y \in ArgPool} \ {<<x, x>> : x \in ArgPool} ELSE {})

Invocations(k) == {Mod(S(mn, as), i, FALSE, FALSE) : mn \in MacroNames, as \in ArgSets(k), i \in BOOLEAN}

\* alone, and as a step of a pipeline
ProgsQ == {<<x>> : x \in Invocations(1)} \cup {<<B, x>> : x \in Invocations(1)}
ProgsTiny == {<<x>> : x \in {Mod(S(mn, <<>>), FALSE, FALSE, FALSE) : mn \in MacroNames}}
ProgsT == {<<x>> : x \in Invocations(2)} \cup {<<B, x>> : x \in Invocations(2)}
          \cup {<<B, Mod(x, x.inv, f, ~f)>> : x \in Invocations(1), f \in BOOLEAN}

D2 == << <<2 * Unit, 12 * Unit, 13 * Unit, 14 * Unit>>, <<21 * Unit, 22 * Unit, 23 * Unit, 24 * Unit>> >>
NoGlobals == <<>>
\* the context supplies one global of its own (ellps=GRS80); with c standing for ellps and 1 for GRS80:
GlobC1 == ("c" :> 1)
Styles1 == {"suffix"}
Styles3 == {"suffix", "prefix", "eqtrue"}
=============================================================================
