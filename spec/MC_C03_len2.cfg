SPECIFICATION Spec
CONSTANTS
  NaN = NaN
  Progs <- Progs2
  Resources <- Res
  Globals <- NoGlobals
  Data0 <- D2
  Styles <- StylesAll
INVARIANTS RefInv ReversalInv CountInv RoundTripInv ExpansionInv Emit
CHECK_DEADLOCK FALSE
