--------------------------- MODULE Trace_Runtime ---------------------------
(***************************************************************************)
(* Trace validation against Runtime.tla.                                   *)
(*                                                                         *)
(* A trace is what the hooks of the implementation wrote while some        *)
(* program ran - the repository's own test suite (cargo test with the      *)
(* guard on and GEODESY_VERIF_TRACE_DIR set) or the harness' pipelines -   *)
(* regrouped by the driver (bin/rtlib.py): thread by thread in sequence    *)
(* order, `reset` followed by that thread's dispatch / applied / step      *)
(* events; the `built` event of a pipeline is moved to right before its    *)
(* first call (it is built before anybody applies it) and `forget` drops   *)
(* it after its last call.  Every event is one action of         *)
(* Runtime.tla with all its arguments logged, so the search is linear.     *)
(* `reset` forgets the call stack (a test that panicked on purpose leaves  *)
(* its calls open).  The invariants of Runtime.tla are evaluated in every  *)
(* state of the trace as well.                                             *)
(***************************************************************************)
EXTENDS Runtime, Json, IOUtils

Rec == ndJsonDeserialize(IOEnv.TRACE)

VARIABLE l
tvars == <<rvars, l>>

E == Rec[l]
Is(e) == l <= Len(Rec) /\ Rec[l].ev = e /\ l' = l + 1

TInit  == RInit /\ l = 1 /\ TLCSet(1, 1)
TBuilt == Is("built") /\ Build(E.id, E.steps)
TCall  == Is("dispatch") /\ Call(E.id, E.req, E.inverted, E.invertible, E.n)
TRet   == Is("applied") /\ Ret(E.id, E.count, E.ran)
TSkip  == Is("step") /\ E.skipped /\ Skip(E.id)
TStep  == Is("step") /\ ~E.skipped /\ StepDone(E.id, E.dir, E.count, E.depth)
TReset == Is("reset") /\ frames' = <<>> /\ hist' = <<>> /\ last' = None /\ UNCHANGED built

\* the driver drops a pipeline after the last call of it in the trace has returned (bounded states)
TForget == /\ Is("forget") /\ frames = <<>>
           /\ LET ids == {E.ids[j] : j \in 1..Len(E.ids)} IN built' = [x \in DOMAIN built \ ids |-> built[x]]
           /\ UNCHANGED <<frames, last, hist>>

TNext == TBuilt \/ TCall \/ TRet \/ TSkip \/ TStep \/ TReset \/ TForget
TraceSpec == TInit /\ [][TNext]_tvars

Progress == TLCSet(1, IF l > TLCGet(1) THEN l ELSE TLCGet(1))
Accepted == IF TLCGet(1) = Len(Rec) + 1 THEN TRUE
            ELSE Print(<<"REJECTED", ToJson([matched |-> TLCGet(1) - 1, total |-> Len(Rec),
                         next |-> IF TLCGet(1) <= Len(Rec) THEN Rec[TLCGet(1)] ELSE [ev |-> "none"]])>>, FALSE)
=============================================================================
