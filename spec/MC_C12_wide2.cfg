SPECIFICATION Spec
CONSTANTS
  NaN = NaN
  Alphabet <- AlphaWide
  MaxLen = 2
  AppPatterns <- AppsFI
  Data0 <- D2
  MinLen = 2
INVARIANTS TypeOK CountInv UnderflowInv RefInv FreshStackInv Emit
CHECK_DEADLOCK FALSE
