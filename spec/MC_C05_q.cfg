SPECIFICATION Spec
CONSTANTS
  Tier = "q"
  Fams <- AllFams
INVARIANTS CharInv DomainInv LociInv ScaleArgInv CoverInv CountInv Emit
CHECK_DEADLOCK FALSE
