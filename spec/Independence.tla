---------------------------- MODULE Independence ----------------------------
(***************************************************************************)
(* C02.  An instantiated operator is an immutable value and applying it to *)
(* a set is applying it to every tuple on its own:                         *)
(*     ApplySet(op, dir, S)[i] = ApplyTuple(op, dir, S[i])                 *)
(* A behaviour is a history of applications of ONE handle: the whole set,  *)
(* a permutation of it, a partition into chunks, singletons, repetitions,  *)
(* in both directions.  The specification predicts every observation from  *)
(* the per-tuple function alone; TLC checks that the batch semantics of    *)
(* Pipeline.tla (where the stack and the min-count live) agrees with it.   *)
(***************************************************************************)
EXTENDS Pipeline

CONSTANTS Ops,        \* definitions under test
          Pool,       \* value pool (4-tuples)
          MaxSet      \* largest set

OpsC  == TLCEval(Ops)
PoolC == TLCEval(Pool)

VARIABLES def2, tree2, set, sched, pos, obs
ivars == <<def2, tree2, set, sched, pos, obs>>
allvars == <<ivars, vars>>

\* one tuple on its own
ApplyTuple(t, dd, tup) == BigApply(t, dd, <<tup>>)

\* schedules: sequences of [dir, idx] where idx is a sequence of positions of `set`
Perms(n) == {p \in [1..n -> 1..n] : \A i, j \in 1..n : i # j => p[i] # p[j]}
Whole(n) == [i \in 1..n |-> i]
ChunkSplits(n) == {k \in 0..n : TRUE}
Schedules(n) ==
    LET w == Whole(n) IN
    {<< [dir |-> d, idx |-> w] >> : d \in {"F", "I"}}
    \cup {<< [dir |-> d, idx |-> p], [dir |-> d, idx |-> w] >> : d \in {"F", "I"}, p \in Perms(n)}
    \cup {<< [dir |-> d, idx |-> SubSeq(w, 1, k)], [dir |-> d, idx |-> SubSeq(w, k + 1, n)], [dir |-> d, idx |-> w] >> :
              d \in {"F", "I"}, k \in 0..n}
    \cup {<< [dir |-> "F", idx |-> w], [dir |-> "I", idx |-> w], [dir |-> "F", idx |-> w] >>}
    \cup {[i \in 1..n |-> [dir |-> d, idx |-> <<i>>]] \o << [dir |-> d, idx |-> w] >> : d \in {"F", "I"}}

IInit == /\ def2 \in OpsC
         /\ tree2 = Instantiate(def2)
         /\ \E n \in 0..MaxSet : set \in [1..n -> PoolC]
         /\ sched \in Schedules(Len(set))
         /\ pos = 1 /\ obs = <<>>
         \* the variables of Pipeline's own machine are not used here
         /\ prog = <<>> /\ style = "suffix" /\ tree = [ok |-> FALSE, why |-> "unused"] /\ dir = "F"
         /\ frames = <<>> /\ data = <<>> /\ result = <<>> /\ phase = "unused"

\* one application of the handle to fresh copies of the selected tuples:
\* the observation is what the BATCH semantics gives
ApplyNext == /\ pos <= Len(sched) /\ tree2.ok
             /\ LET s == sched[pos]
                    inp == [i \in 1..Len(s.idx) |-> set[s.idx[i]]]
                    r == BigApply(tree2.v, s.dir, inp)
                IN obs' = Append(obs, [dir |-> s.dir, inp |-> inp, out |-> r.data, cnt |-> r.cnt])
             /\ pos' = pos + 1
             /\ UNCHANGED <<def2, tree2, set, sched, vars>>
ISpec == IInit /\ [][ApplyNext]_allvars

\* ---- the property ----------------------------------------------------------
\* every observation is explained by the per-tuple function, whatever the
\* neighbours, the order, the chunking and the history
IndependenceInv ==
    \A k \in 1..Len(obs) : \A i \in 1..Len(obs[k].inp) :
        obs[k].out[i] = ApplyTuple(tree2.v, obs[k].dir, obs[k].inp[i]).data[1]
\* for elementary operators the count of the whole is the sum over its parts
Elementary(t) == t.kind = "leaf"
RECURSIVE SumCnt(_, _, _, _)
SumCnt(t, d, inp, i) == IF i > Len(inp) THEN 0 ELSE ApplyTuple(t, d, inp[i]).cnt + SumCnt(t, d, inp, i + 1)
AdditiveInv == (tree2.ok /\ Elementary(tree2.v)) =>
    \A k \in 1..Len(obs) : obs[k].cnt = SumCnt(tree2.v, obs[k].dir, obs[k].inp, 1)

EmitI == (pos > Len(sched) /\ tree2.ok) =>
    PrintT(<<"SCHED", ToJson([def |-> DefText(def2, "suffix"), resources |-> ResourceTexts,
                               elementary |-> Elementary(tree2.v), obs |-> obs])>>)
=============================================================================
