SPECIFICATION ISpec
CONSTANTS
  NaN = NaN
  Progs <- NoProgs
  Resources <- Res
  Globals <- NoGlobals
  Data0 <- D0
  Styles <- OneStyle
  Ops <- OpSet
  Pool <- P5
  MaxSet = 3
INVARIANTS IndependenceInv AdditiveInv EmitI
CHECK_DEADLOCK FALSE
