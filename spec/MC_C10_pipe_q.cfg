SPECIFICATION Spec
CONSTANTS
  N = 2
  MaxOmit = 1
  PipeIds <- PipeIdsQ
INVARIANTS SaneInv Emit
CHECK_DEADLOCK FALSE
