SPECIFICATION Spec
CONSTANTS
  None = None
  Defs <- DefsQ
  PairAll = FALSE
INVARIANTS ThroughCanonInv InverseInv R1Inv R2Inv R3Inv R4Inv UtmInv SphereInv LccInv NoopInv AcceptInv EmitDef
CHECK_DEADLOCK FALSE
