------------------------------- MODULE Stack -------------------------------
(***************************************************************************)
(* The abstract stack machine of Rumination 002 ("Operator stack") and of  *)
(* the deprecated push/pop steps, as pure operators on                     *)
(*     st   : sequence of columns (bottom first, top last)                 *)
(*     data : the operand set, a sequence of 4-tuples                      *)
(* Each instruction yields [st, data, cnt, uf]: new stack, new operands,   *)
(* the number of successes it reports and whether it underflowed.          *)
(*                                                                         *)
(* Instruction records:                                                    *)
(*   [a |-> "push"|"pop"|"flip", args |-> <<i1, ..>>]   1 <= i <= 4        *)
(*   [a |-> "roll"|"unroll", m |-> m, n |-> n]          |n| < m            *)
(*   [a |-> "swap"]                                                        *)
(*   [a |-> "lpush"|"lpop", flags |-> subset of 1..4]   legacy v_i steps   *)
(***************************************************************************)
EXTENDS Values

Res(st, data, cnt, uf) == [st |-> st, data |-> data, cnt |-> cnt, uf |-> uf]
\* an underflow invalidates the application: all operands NaN, and nothing stale
\* is left on the stack for later steps to pop over the NaNs
Underflow(st, data) == Res(<<>>, Stomp(data), 0, TRUE)

\* push=i1,i2,..: copies of the columns, left to right; the last is TOS
Push(st, data, args) ==
    Res(st \o [j \in 1..Len(args) |-> Col(data, args[j])], data, Len(data), FALSE)

\* pop=i1,i2,..: TOS goes to element i1, 2OS to i2, ... (left to right)
RECURSIVE PopInto(_, _, _)
PopInto(st, data, args) ==
    IF Len(args) = 0 THEN <<st, data>>
    ELSE PopInto(SubSeq(st, 1, Len(st) - 1), SetCol(data, Head(args), st[Len(st)]), Tail(args))

Pop(st, data, args) ==
    IF Len(st) < Len(args) THEN Underflow(st, data)
    ELSE LET r == PopInto(st, data, args) IN Res(r[1], r[2], Len(data), FALSE)

\* flip=i1,i2,..: exchange element i1 with TOS, i2 with 2OS, ...
RECURSIVE FlipWith(_, _, _, _)
FlipWith(st, data, args, j) ==
    IF j > Len(args) THEN <<st, data>>
    ELSE LET d == Len(st) + 1 - j
             e == args[j]
         IN FlipWith([st EXCEPT ![d] = Col(data, e)], SetCol(data, e, st[d]), args, j + 1)

Flip(st, data, args) ==
    IF Len(st) < Len(args) THEN Underflow(st, data)
    ELSE LET r == FlipWith(st, data, args, 1) IN Res(r[1], r[2], Len(data), FALSE)

\* Rotate the m topmost elements: the k upper ones go below the m-k lower
RotateTop(st, m, k) ==
    LET d    == Len(st)
        base == SubSeq(st, 1, d - m)
        low  == SubSeq(st, d - m + 1, d - k)
        up   == SubSeq(st, d - k + 1, d)
    IN base \o up \o low

\* roll=m,n  (n < 0 counts from the bottom: n := m + n)
RollBy(st, data, m, k) ==
    IF m > Len(st) THEN Underflow(st, data)
    ELSE Res(RotateTop(st, m, k % m), data, Len(data), FALSE)

Roll(st, data, m, n)   == RollBy(st, data, m, IF n < 0 THEN m + n ELSE n)
\* unroll=m,n is roll=m,m-n
Unroll(st, data, m, n) == RollBy(st, data, m, m - (IF n < 0 THEN m + n ELSE n))

\* swap: exchange TOS and 2OS.  With fewer than two elements the behaviour
\* is left unspecified: SwapDefined is the guard used by the machine.
SwapDefined(st) == Len(st) >= 2
Swap(st, data) ==
    LET d == Len(st) IN
    Res([st EXCEPT ![d] = st[d - 1], ![d - 1] = st[d]], data, Len(data), FALSE)

\* Legacy push v_i..: flagged elements in numerical order
SortedSeq(S) == LET RECURSIVE F(_, _)
                    F(i, acc) == IF i > 4 THEN acc
                                 ELSE F(i + 1, IF i \in S THEN Append(acc, i) ELSE acc)
                IN F(1, <<>>)
LPush(st, data, flags) == Push(st, data, SortedSeq(flags))

\* Legacy pop v_i..: flagged elements in reverse numerical order; on
\* underflow the element that cannot be served becomes NaN in every tuple
RECURSIVE LPopSeq(_, _, _)
LPopSeq(st, data, args) ==
    IF Len(args) = 0 THEN Res(st, data, Len(data), FALSE)
    ELSE IF Len(st) = 0
         THEN Res(st, SetCol(data, Head(args), [k \in 1..Len(data) |-> NaN]), 0, TRUE)
         ELSE LPopSeq(SubSeq(st, 1, Len(st) - 1), SetCol(data, Head(args), st[Len(st)]), Tail(args))
LPop(st, data, flags) == LPopSeq(st, data, Rev(SortedSeq(flags)))

\* ---- direction ----------------------------------------------------------

StackFwd(ins, st, data) ==
    CASE ins.a = "push"   -> Push(st, data, ins.args)
      [] ins.a = "pop"    -> Pop(st, data, ins.args)
      [] ins.a = "flip"   -> Flip(st, data, ins.args)
      [] ins.a = "roll"   -> Roll(st, data, ins.m, ins.n)
      [] ins.a = "unroll" -> Unroll(st, data, ins.m, ins.n)
      [] ins.a = "swap"   -> Swap(st, data)
      [] ins.a = "lpush"  -> LPush(st, data, ins.flags)
      [] ins.a = "lpop"   -> LPop(st, data, ins.flags)

\* Inverse direction: push <-> pop with reversed argument lists,
\* roll <-> unroll, swap and flip unchanged
InverseIns(ins) ==
    CASE ins.a = "push"   -> [a |-> "pop",  args |-> Rev(ins.args)]
      [] ins.a = "pop"    -> [a |-> "push", args |-> Rev(ins.args)]
      [] ins.a = "roll"   -> [ins EXCEPT !.a = "unroll"]
      [] ins.a = "unroll" -> [ins EXCEPT !.a = "roll"]
      [] ins.a = "lpush"  -> [ins EXCEPT !.a = "lpop"]
      [] ins.a = "lpop"   -> [ins EXCEPT !.a = "lpush"]
      [] OTHER            -> ins

StackInv(ins, st, data) == StackFwd(InverseIns(ins), st, data)

\* ---- text ---------------------------------------------------------------

FlagText(flags) == JoinStr([i \in 1..Len(SortedSeq(flags)) |-> "v_" \o ToString(SortedSeq(flags)[i])], " ")

InsText(ins) ==
    CASE ins.a \in {"push", "pop", "flip"} -> "stack " \o ins.a \o "=" \o JoinInts(ins.args, ",")
      [] ins.a \in {"roll", "unroll"}      -> "stack " \o ins.a \o "=" \o ToString(ins.m) \o "," \o ToString(ins.n)
      [] ins.a = "swap"                    -> "stack swap"
      [] ins.a = "drop"                    -> "stack drop"
      [] ins.a = "lpush"                   -> "push " \o FlagText(ins.flags)
      [] ins.a = "lpop"                    -> "pop " \o FlagText(ins.flags)

\* ---- the documentation's own example tables (Rumination 002) -----------
\* stacks are written bottom..top as in the tables; one operand tuple

Doc1(s) == [i \in 1..Len(s) |-> <<s[i]>>]     \* columns for a 1-tuple set
D0 == << <<5, 6, 7, 8>> >>

ASSUME Roll(Doc1(<<1,2,3,4>>), D0, 3, -2).st = Doc1(<<1,4,2,3>>)
ASSUME Roll(Doc1(<<1,2,3,4>>), D0, 3, 1).st  = Doc1(<<1,4,2,3>>)
ASSUME Roll(Doc1(<<1,2,3,4>>), D0, 3, 2).st  = Doc1(<<1,3,4,2>>)
ASSUME Roll(Doc1(<<1,3,4,2>>), D0, 3, 1).st  = Doc1(<<1,2,3,4>>)
ASSUME Unroll(Doc1(<<1,2,3,4>>), D0, 3, 2).st  = Doc1(<<1,4,2,3>>)
ASSUME Unroll(Doc1(<<1,2,3,4>>), D0, 3, -2).st = Doc1(<<1,3,4,2>>)
ASSUME Unroll(Doc1(<<1,3,4,2>>), D0, 3, 2).st  = Doc1(<<1,2,3,4>>)
ASSUME LET r == Flip(Doc1(<<1,2,3,4>>), D0, <<1,2>>)
       IN r.st = Doc1(<<1,2,6,5>>) /\ r.data = << <<4,3,7,8>> >>
ASSUME LET r == Flip(Doc1(<<1,2,6,5>>), << <<4,3,7,8>> >>, <<1,2>>)
       IN r.st = Doc1(<<1,2,3,4>>) /\ r.data = D0
\* push=1,2 | pop=1,2 swaps the first two elements
ASSUME LET p == Push(<<>>, D0, <<1,2>>) IN Pop(p.st, p.data, <<1,2>>).data = << <<6,5,7,8>> >>
\* Swapping two 2D coordinates packed in a 4D.  (The two recipes printed in
\* Rumination 002 for this, `push=1,2,3,4 | roll=4,2 | pop=2,1,4,3` and
\* `push=1,2,3,4 | pop=4,3,2,1`, are both the identity under the semantics
\* the same section defines; the tables above are taken as normative.)
ASSUME LET p == Push(<<>>, D0, <<1,2,3,4>>)
           r == Roll(p.st, p.data, 4, 2)
       IN /\ Pop(r.st, r.data, <<4,3,2,1>>).data = << <<7,8,5,6>> >>
          /\ Pop(r.st, r.data, <<2,1,4,3>>).data = D0
          /\ Pop(p.st, p.data, <<4,3,2,1>>).data = D0
\* legacy: push v_3 v_2 | pop v_3 v_2 is a noop
ASSUME LET p == LPush(<<>>, D0, {2,3}) IN LPop(p.st, p.data, {2,3}).data = D0
=============================================================================
