SPECIFICATION Spec
CONSTANTS
  Tier = "t"
  Fams <- AllFams
INVARIANTS DomainInv ClassInv Emit
CHECK_DEADLOCK FALSE
