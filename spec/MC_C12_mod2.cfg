SPECIFICATION Spec
CONSTANTS
  NaN = NaN
  Alphabet <- AlphaMod2
  MaxLen = 2
  AppPatterns <- AppsRT
  Data0 <- D2
  MinLen = 1
INVARIANTS TypeOK CountInv UnderflowInv RefInv FreshStackInv Emit
CHECK_DEADLOCK FALSE
