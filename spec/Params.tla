------------------------------- MODULE Params -------------------------------
(***************************************************************************)
(* Typed parameters (C16, second half).                                    *)
(*                                                                         *)
(* An operator declares a gamut: a sequence of                             *)
(*   [key, kind, req, dflt]   kind in flag, natural, integer, real,        *)
(*                            series, text, texts                          *)
(* A step supplies arguments: a sequence of [k |-> key, sp |-> spelling].  *)
(* A spelling is a *structured* form, so that the specification derives    *)
(* both its text and its exact value:                                      *)
(*   dec   sign, leading zeros, integer part, fraction digits, exponent,   *)
(*         optional hemisphere letter                                      *)
(*   sex   sign, degrees : minutes [: seconds[.milliseconds]], optional    *)
(*         hemisphere letter N S E W n s e w                               *)
(*   raw   text that is not a number at all (empty, letters, multi-byte,   *)
(*         too many fields, ...)                                           *)
(*   word  a text; list: several spellings separated by commas; bare: a    *)
(*         flag given without value                                        *)
(* Values are exact: naturals and integers are integers, a real is the     *)
(* rational [n, d] (d > 0); a sexagesimal angle is an integer number of    *)
(* milli-arc-seconds over 3 600 000.                                       *)
(*                                                                         *)
(* Interp(kind, spelling) classifies                                       *)
(*   valid   a documented way of writing a value of that kind: it must be  *)
(*           accepted with exactly the value written                       *)
(*   bad     it has no value of that kind: it must be rejected with an     *)
(*           error naming the parameter                                    *)
(*   either  unusual but unambiguous (+5, 007, .5, 5., 1e3 for an integer, *)
(*           12W without minutes): accepted with exactly that value, or    *)
(*           rejected naming the parameter -- never another value          *)
(* Spellings the functions document as undefined are not generated:        *)
(* minutes or seconds >= 60, a minus sign together with a hemisphere       *)
(* letter; nor inf / nan / hexadecimal.                                    *)
(*                                                                         *)
(* The machine processes the gamut entry by entry, like                    *)
(* ParsedParameters::new: the LAST of repeated keys counts, a missing      *)
(* optional key takes its default, a missing required key fails naming the *)
(* key, unknown keys are ignored; afterwards the implicit gamut is added   *)
(* (x_0..3, y_0..3, lat_0..3, lon_0..3 = 0, k_0..3 = 1, omit_fwd,          *)
(* omit_inv).  Invariants relate it to the declarative reference.          *)
(***************************************************************************)
EXTENDS Values, Json

CONSTANTS PGamut,   \* the gamut: sequence of [key, kind, req, dflt]
          PDefs,    \* sequence of argument lists to explore
          POpName   \* the operator that declares PGamut (t_gamut)

GamutC == TLCEval(PGamut)
DefsC  == TLCEval(PDefs)

RECURSIVE Pow10(_)
Pow10(k) == IF k = 0 THEN 1 ELSE 10 * Pow10(k - 1)
Q(n, d) == [n |-> n, d |-> d]

RECURSIVE Zeros(_)
Zeros(k) == IF k = 0 THEN "" ELSE "0" \o Zeros(k - 1)
\* v written with exactly w digits
RECURSIVE Digits(_, _)
Digits(v, w) == IF w = 0 THEN "" ELSE Digits(v \div 10, w - 1) \o ToString(v % 10)

(***************************************************************************)
(* Spellings                                                               *)
(***************************************************************************)
\* dec: sg in {"", "-", "+"}; lz leading zeros; ip integer part; point in
\* {"none", "mid", "lead", "trail"}; fd fraction digits, fp their value;
\* ex: "" or "e" / "E"; exv exponent; hemi: "" or a letter
Dec(sg, lz, ip, point, fd, fp, ex, exv, hemi) ==
    [f |-> "dec", sg |-> sg, lz |-> lz, ip |-> ip, point |-> point, fd |-> fd, fp |-> fp,
     ex |-> ex, exv |-> exv, hemi |-> hemi]
Int0(sg, ip) == Dec(sg, 0, ip, "none", 0, 0, "", 0, "")
Frac(sg, ip, fd, fp) == Dec(sg, 0, ip, "mid", fd, fp, "", 0, "")

\* sex: nf = 2 (d:m) or 3 (d:m:s); msd = 0 or 3 digits of milliseconds; pad: two-digit minutes and seconds
Sex(sg, lz, d, m, s, ms, msd, nf, pad, hemi) ==
    [f |-> "sex", sg |-> sg, lz |-> lz, d |-> d, m |-> m, s |-> s, ms |-> ms, msd |-> msd, nf |-> nf,
     pad |-> pad, hemi |-> hemi]
Raw(t) == [f |-> "raw", t |-> t]
Word(t) == [f |-> "word", t |-> t]
List(s) == [f |-> "list", s |-> s]
Bare == [f |-> "bare"]

RECURSIVE SpText(_)
SpText(sp) ==
    CASE sp.f = "dec" ->
           sp.sg \o Zeros(sp.lz) \o (IF sp.point = "lead" THEN "" ELSE ToString(sp.ip))
           \o (CASE sp.point = "none" -> "" [] sp.point = "trail" -> "."
                 [] OTHER -> "." \o Digits(sp.fp, sp.fd))
           \o (IF sp.ex = "" THEN "" ELSE sp.ex \o ToString(sp.exv)) \o sp.hemi
      [] sp.f = "sex" ->
           LET two(v) == IF sp.pad THEN Digits(v, 2) ELSE ToString(v) IN
           sp.sg \o Zeros(sp.lz) \o ToString(sp.d) \o ":" \o two(sp.m)
           \o (IF sp.nf = 3 THEN ":" \o two(sp.s) \o (IF sp.msd > 0 THEN "." \o Digits(sp.ms, sp.msd) ELSE "") ELSE "")
           \o sp.hemi
      [] sp.f \in {"raw", "word"} -> sp.t
      [] sp.f = "list" -> JoinStr([i \in 1..Len(sp.s) |-> SpText(sp.s[i])], ",")
      [] sp.f = "bare" -> ""

Sgn(sg) == IF sg = "-" THEN -1 ELSE 1
South(h) == h \in {"S", "s", "W", "w"}

\* exact value of a dec spelling, sign and hemisphere included
DecQ(sp) == LET up == IF sp.ex # "" /\ sp.exv > 0 THEN Pow10(sp.exv) ELSE 1
                dn == IF sp.ex # "" /\ sp.exv < 0 THEN Pow10(-sp.exv) ELSE 1
                hs == IF South(sp.hemi) THEN -1 ELSE 1
            IN Q(Sgn(sp.sg) * hs * (sp.ip * Pow10(sp.fd) + sp.fp) * up, Pow10(sp.fd) * dn)
DecIntegral(sp) == LET q == DecQ(sp) IN q.n % q.d = 0

\* milli-arc-seconds over 3 600 000
SexQ(sp) == LET hs == IF South(sp.hemi) THEN -1 ELSE 1
                ms == IF sp.msd = 0 THEN 0 ELSE sp.ms * Pow10(3 - sp.msd)
            IN Q(Sgn(sp.sg) * hs * (sp.d * 3600000 + sp.m * 60000 + (IF sp.nf = 3 THEN sp.s * 1000 + ms ELSE 0)), 3600000)

Valid(v)  == [c |-> "valid", v |-> v]
Either(v) == [c |-> "either", v |-> v]
BadSp     == [c |-> "bad", v |-> 0]

\* the well-formedness the functions document (anything else is not generated)
Generated(sp) ==
    CASE sp.f = "dec" -> ~(sp.sg = "-" /\ sp.hemi # "") /\ (sp.point = "lead" => sp.ip = 0 /\ sp.lz = 0)
                         /\ (sp.point \in {"none", "trail"} => sp.fd = 0 /\ sp.fp = 0)
                         /\ ~(sp.sg = "-" /\ sp.ip = 0 /\ sp.fp = 0)          \* minus zero
                         /\ ~(sp.ex # "" /\ sp.hemi # "")                     \* 1e5E
      [] sp.f = "sex" -> sp.m < 60 /\ sp.s < 60 /\ ~(sp.sg = "-" /\ sp.hemi # "")
                         /\ ~(sp.sg = "-" /\ sp.d = 0 /\ sp.m = 0 /\ sp.s = 0 /\ sp.ms = 0)
      [] OTHER -> TRUE

RealOf(sp) ==
    CASE sp.f = "dec" ->
           IF sp.sg = "+" \/ sp.point \in {"lead", "trail"} \/ sp.hemi # "" \/ sp.lz > 0 THEN Either(DecQ(sp))
           ELSE Valid(DecQ(sp))
      [] sp.f = "sex" -> IF sp.sg = "+" THEN Either(SexQ(sp)) ELSE Valid(SexQ(sp))
      [] OTHER -> BadSp

RECURSIVE SeriesOf(_, _, _)
SeriesOf(s, acc, cls) ==
    IF Len(s) = 0 THEN [c |-> cls, v |-> acc]
    ELSE LET r == RealOf(Head(s)) IN
         IF r.c = "bad" THEN BadSp
         ELSE SeriesOf(Tail(s), Append(acc, r.v), IF r.c = "either" THEN "either" ELSE cls)

Interp(kind, sp) ==
    CASE kind = "flag" ->
           IF sp.f = "bare" \/ (sp.f = "word" /\ sp.t = "true") THEN Valid(TRUE) ELSE BadSp
      [] kind = "natural" ->
           IF sp.f # "dec" \/ sp.hemi # "" THEN BadSp
           ELSE IF ~DecIntegral(sp) \/ sp.sg = "-" THEN BadSp
           ELSE IF sp.sg = "" /\ sp.lz = 0 /\ sp.point = "none" /\ sp.ex = "" THEN Valid(sp.ip)
           ELSE Either(DecQ(sp).n \div DecQ(sp).d)
      [] kind = "integer" ->
           IF sp.f # "dec" \/ sp.hemi # "" THEN BadSp
           ELSE IF ~DecIntegral(sp) THEN BadSp
           ELSE IF sp.sg # "+" /\ sp.lz = 0 /\ sp.point = "none" /\ sp.ex = "" THEN Valid(Sgn(sp.sg) * sp.ip)
           ELSE Either(DecQ(sp).n \div DecQ(sp).d)
      [] kind = "real" -> RealOf(sp)
      [] kind = "series" ->
           IF sp.f = "list" THEN SeriesOf(sp.s, <<>>, "valid")
           ELSE IF sp.f = "raw" /\ sp.t = "" THEN Either(<<>>)       \* an empty series, given explicitly
           ELSE SeriesOf(<<sp>>, <<>>, "valid")
      [] kind = "text" ->
           IF sp.f = "raw" /\ sp.t = "" THEN Either("") ELSE IF sp.f = "bare" THEN Either("true") ELSE Valid(SpText(sp))
      [] kind = "texts" ->
           IF sp.f = "list" THEN Valid([i \in 1..Len(sp.s) |-> SpText(sp.s[i])])
           ELSE IF sp.f = "raw" /\ sp.t = "" THEN Either(<<>>)
           ELSE Valid(<<SpText(sp)>>)

(***************************************************************************)
(* The declarative reference                                               *)
(***************************************************************************)
Keys(args) == {args[i].k : i \in 1..Len(args)}
LastOf(args, key) == CHOOSE i \in 1..Len(args) : args[i].k = key /\ \A j \in 1..Len(args) : args[j].k = key => j <= i
GamutKeys == {GamutC[i].key : i \in 1..Len(GamutC)}
Entry(key) == GamutC[CHOOSE i \in 1..Len(GamutC) : GamutC[i].key = key]

\* the outcome for one gamut key
KeyOutcome(args, g) ==
    IF g.key \in Keys(args) THEN Interp(g.kind, args[LastOf(args, g.key)].sp)
    ELSE IF g.kind = "flag" THEN Valid(FALSE)
    ELSE IF g.req THEN [c |-> "missing", v |-> 0]
    ELSE Valid(g.dflt)

BadKeys(args)    == {k \in GamutKeys : KeyOutcome(args, Entry(k)).c \in {"bad", "missing"}}
EitherKeys(args) == {k \in GamutKeys : KeyOutcome(args, Entry(k)).c = "either"}

ZeroImplicit == {"x_0", "x_1", "x_2", "x_3", "y_0", "y_1", "y_2", "y_3",
                 "lat_0", "lat_1", "lat_2", "lat_3", "lon_0", "lon_1", "lon_2", "lon_3"}
UnitImplicit == {"k_0", "k_1", "k_2", "k_3"}
ImplicitFlags == {"omit_fwd", "omit_inv"}

\* all typed values, when every given spelling is taken at its value
RefBins(args) ==
    [k \in GamutKeys \cup ZeroImplicit \cup UnitImplicit \cup ImplicitFlags |->
        IF k \in GamutKeys THEN KeyOutcome(args, Entry(k)).v
        ELSE IF k \in ZeroImplicit THEN Q(0, 1)
        ELSE IF k \in UnitImplicit THEN Q(1, 1)
        ELSE k \in Keys(args)]

Must(args) == IF BadKeys(args) # {} THEN "reject" ELSE IF EitherKeys(args) # {} THEN "either" ELSE "accept"

(***************************************************************************)
(* The machine                                                             *)
(***************************************************************************)
VARIABLES di,      \* index of the argument list
          gi,      \* next gamut entry
          bins,    \* key -> typed value, for the entries processed
          st,      \* "run", "ok", "fail"
          named    \* the key named by the failure
pvars == <<di, gi, bins, st, named>>

Args == DefsC[di]
Put(f, k, v) == [x \in DOMAIN f \cup {k} |-> IF x = k THEN v ELSE f[x]]

PInit == di \in 1..Len(DefsC) /\ gi = 1 /\ bins = <<>> /\ st = "run" /\ named = ""

\* the key is given: the last occurrence is interpreted according to the declared kind
Given == /\ st = "run" /\ gi <= Len(GamutC) /\ GamutC[gi].key \in Keys(Args)
         /\ LET g == GamutC[gi]
                r == Interp(g.kind, Args[LastOf(Args, g.key)].sp)
            IN IF r.c = "bad" THEN st' = "fail" /\ named' = g.key /\ UNCHANGED <<bins, gi>>
               ELSE bins' = Put(bins, g.key, r.v) /\ gi' = gi + 1 /\ UNCHANGED <<st, named>>
         /\ UNCHANGED di

\* not given: flags are false, optional keys take their default
Defaulted == /\ st = "run" /\ gi <= Len(GamutC) /\ GamutC[gi].key \notin Keys(Args)
             /\ LET g == GamutC[gi] IN
                /\ g.kind = "flag" \/ ~g.req
                /\ bins' = Put(bins, g.key, IF g.kind = "flag" THEN FALSE ELSE g.dflt)
             /\ gi' = gi + 1 /\ UNCHANGED <<di, st, named>>

\* not given and required
Missing == /\ st = "run" /\ gi <= Len(GamutC) /\ GamutC[gi].key \notin Keys(Args)
           /\ GamutC[gi].kind # "flag" /\ GamutC[gi].req
           /\ st' = "fail" /\ named' = GamutC[gi].key /\ UNCHANGED <<di, gi, bins>>

\* the implicit gamut
Implicit == /\ st = "run" /\ gi = Len(GamutC) + 1
            /\ bins' = [k \in DOMAIN bins \cup ZeroImplicit \cup UnitImplicit \cup ImplicitFlags |->
                          IF k \in DOMAIN bins THEN bins[k]
                          ELSE IF k \in ZeroImplicit THEN Q(0, 1)
                          ELSE IF k \in UnitImplicit THEN Q(1, 1)
                          ELSE k \in Keys(Args)]
            /\ st' = "ok" /\ UNCHANGED <<di, gi, named>>

PNext == Given \/ Defaulted \/ Missing \/ Implicit
PSpec == PInit /\ [][PNext]_pvars

(***************************************************************************)
(* Invariants                                                              *)
(***************************************************************************)
\* the machine computes the reference
AgreesWithReference ==
    /\ st = "ok"   => bins = RefBins(Args) /\ BadKeys(Args) = {}
    /\ st = "fail" => named \in BadKeys(Args)

\* the last of repeated keys wins: earlier occurrences are irrelevant
Drop(args, i) == SubSeq(args, 1, i - 1) \o SubSeq(args, i + 1, Len(args))
LastWins == st = "ok" =>
    \A i \in 1..Len(Args) : (\E j \in (i + 1)..Len(Args) : Args[j].k = Args[i].k) => RefBins(Drop(Args, i)) = bins

\* unknown keys are ignored
UnknownIgnored == st = "ok" =>
    \A i \in 1..Len(Args) : Args[i].k \notin (GamutKeys \cup ImplicitFlags) => RefBins(Drop(Args, i)) = bins

\* a text has one meaning per kind (the generator is not ambiguous)
Spellings == {sp \in UNION {{DefsC[i][j].sp : j \in 1..Len(DefsC[i])} : i \in 1..Len(DefsC)} : sp.f \notin {"bare", "word"}}   \* (those are for flags and texts)
TextDeterminesValue == (di = 1 /\ gi = 1) =>
    \A k \in {"natural", "integer", "real", "series"} :
      Cardinality({<<SpText(a), ToString(Interp(k, a))>> : a \in Spellings}) = Cardinality({SpText(a) : a \in Spellings})

\* ---- what the harness is told ---------------------------------------------
ArgText(a) == IF a.sp.f = "bare" THEN a.k ELSE a.k \o "=" \o SpText(a.sp)
PDefText(args) == JoinStr(<<POpName>> \o [i \in 1..Len(args) |-> ArgText(args[i])], " ")

Kinds == [k \in GamutKeys |-> Entry(k).kind]
     @@ [k \in ZeroImplicit \cup UnitImplicit |-> "real"] @@ [k \in ImplicitFlags |-> "flag"]

EmitP == st \in {"ok", "fail"} =>
    PrintT(<<"PARAMS", ToJson([
        def    |-> PDefText(Args),
        must   |-> Must(Args),
        \* a rejection must name one of these
        reject |-> BadKeys(Args) \cup EitherKeys(Args),
        values |-> RefBins(Args),
        kinds  |-> Kinds,
        empty_default |-> {k \in GamutKeys : Entry(k).kind \in {"series", "texts"} /\ ~Entry(k).req /\ Entry(k).dflt = <<>>}
    ])>>)
=============================================================================
