------------------------------- MODULE MC_C18 -------------------------------
EXTENDS Context
C1 == {1}
C2 == {1, 2}
\* ---- the "names" instance: name classes that the base instance does not have ----
\* user operators under the names of the built-ins which the pipeline operator executes itself (push, stack),
\* used as pipeline steps and as macro bodies; resources registered under names without a colon (one colliding
\* with a built-in, one unknown otherwise)
NmOpNames == {"addone", "push", "stack"}
NmVersions == {1}
NmPlainResNames == {"addone", "myop"}
NmBodies == {"push v_1", "stack push=1", "addone", "lit100"}
NmDefs == {"addone", "myop", "m:x", "push v_1", "stack push=1", "m:x | addone",
           "push v_1 | addone", "addone | stack push=1", "push v_1 | addone | stack push=1"}
=============================================================================
