------------------------------- MODULE MC_C02 -------------------------------
EXTENDS Independence
L(k, v) == [k |-> k, v |-> [f |-> "lit", v |-> v]]
S(n, a) == [name |-> n, args |-> a, inv |-> FALSE, of |-> FALSE, oi |-> FALSE]
Mod(s, i, f, o) == [s EXCEPT !.inv = i, !.of = f, !.oi = o]
A  == S("t_add", <<L("e", 1), L("c", 1)>>)
B  == S("t_dbl", <<L("e", 2)>>)
Dr == S("t_drift", <<L("rate", 2), L("t0", 2000)>>)
Z  == S("t_failodd", <<>>)
W  == S("t_oneway", <<L("e", 3)>>)
Res == [n \in {"m:p"} |-> <<Dr, Mod(A, TRUE, FALSE, FALSE)>>]
OpSet == {<<A>>, <<Dr>>, <<Z>>, <<W>>, <<Mod(Dr, TRUE, FALSE, FALSE)>>, <<Dr, B>>, <<Z, Dr>>, <<S("m:p", <<>>), Z>>,
          <<A, Mod(Dr, FALSE, TRUE, FALSE)>>}
\* value pool: mixed epochs, a NaN member, a failing member (odd first element), a NaN epoch
P5 == { <<2 * Unit, 4 * Unit, 6 * Unit, 2001 * Unit>>, <<2 * Unit, 4 * Unit, 6 * Unit, 2002 * Unit>>,
        <<3 * Unit, 5 * Unit, 7 * Unit, 2003 * Unit>>, <<NaN, 4 * Unit, 6 * Unit, 2001 * Unit>>,
        <<8 * Unit, 4 * Unit, 6 * Unit, NaN>> }
NoGlobals == <<>>
NoProgs == {}
D0 == <<>>
OneStyle == {"suffix"}
=============================================================================
