------------------------------ MODULE Trace_C09 ------------------------------
(***************************************************************************)
(* C09: totality of the API state machine.                                 *)
(*                                                                         *)
(* A trace is recorded by harness/src/bin/gvh_robust.rs: one `call` event  *)
(* immediately before every call into the library and one event when the   *)
(* call is over.  The specification says what "over" can be:               *)
(*                                                                         *)
(*   Context::op                    returns a handle          ret_ok       *)
(*                                  or an error value         ret_err      *)
(*   Context::apply                 returns a count           ret_count    *)
(*                                  or an error value         ret_err      *)
(*   Context::steps / params,                                              *)
(*   parse_proj, Ellipsoid::named,  return Ok(..) or Err(..)  ret_ok       *)
(*   TriaxialEllipsoid::named                                 ret_err      *)
(*   every other public function of the tokenizer, angular and ellipsoid   *)
(*   modules                        returns a value           ret_value    *)
(*                                                                         *)
(* and NOTHING ELSE: there is no action for a `panic` (caught by           *)
(* catch_unwind in the harness), for a `crash` (the child process died:    *)
(* stack overflow, abort, allocation failure under the address space       *)
(* limit) or for a `timeout` (the watchdog of the driver fired: the call,  *)
(* be it an instantiation or an application, did not terminate).  A trace  *)
(* containing one of these is therefore rejected exactly at that event.    *)
(*                                                                         *)
(* The machine also keeps the handles issued so far: a handle is issued    *)
(* once, and apply / steps / params are only ever called on issued handles *)
(* (this makes the recorder's bookkeeping part of what is validated).      *)
(* `reset` separates segments (fresh contexts in the harness).             *)
(*                                                                         *)
(* Acceptance is by POSTCONDITION, as in Trace_C18: every event consumed.  *)
(***************************************************************************)
EXTENDS Integers, Sequences, FiniteSets, TLC, Json, IOUtils

Rec == ndJsonDeserialize(IOEnv.TRACE)

VARIABLES l,      \* index of the next event
          pend,   \* the call in progress: [id, api, grp], or Idle
          live    \* handles issued in this segment
vars == <<l, pend, live>>

Idle == [id |-> 0, api |-> "-", grp |-> "-"]
E == Rec[l]
Is(e) == l <= Len(Rec) /\ Rec[l].ev = e /\ l' = l + 1

\* ---- the API table -------------------------------------------------------
OnHandle   == {"apply", "steps", "params"}
ResultApis == {"steps", "params", "parse_proj", "ellipsoid.named", "triaxial.named"}
ValueGroups == {"token", "angular", "ellipsoid"}

\* the ways in which a call of `c` may be over
Returns(c) ==
    CASE c.api = "op"          -> {"ret_ok", "ret_err"}
      [] c.api = "apply"       -> {"ret_count", "ret_err"}
      [] c.api \in ResultApis  -> {"ret_ok", "ret_err"}
      [] OTHER                 -> IF c.grp \in ValueGroups THEN {"ret_value"} ELSE {}

TInit == l = 1 /\ pend = Idle /\ live = {}

Reset == /\ Is("reset")
         /\ pend' = Idle /\ live' = {}

\* (state predicates with disjunctions/implications are compared with TRUE so
\*  that TLC evaluates them as expressions instead of splitting the action)
Call == /\ Is("call")
        /\ pend = Idle
        /\ (E.id > 0 /\ (E.api \in OnHandle => E.h \in live)) = TRUE
        /\ pend' = [id |-> E.id, api |-> E.api, grp |-> E.grp]
        /\ UNCHANGED live

Over(kind) == /\ Is(kind)
              /\ (pend # Idle /\ E.id = pend.id /\ kind \in Returns(pend)) = TRUE
              /\ pend' = Idle

\* Ok: for Context::op a handle never issued before
RetOk == /\ Over("ret_ok")
         /\ IF pend.api = "op"
            THEN E.h \notin live /\ live' = live \cup {E.h}
            ELSE UNCHANGED live

RetErr == Over("ret_err") /\ UNCHANGED live

\* a count is a natural number
RetCount == /\ Over("ret_count")
            /\ E.count >= 0
            /\ UNCHANGED live

RetValue == Over("ret_value") /\ UNCHANGED live

TNext == Reset \/ Call \/ RetOk \/ RetErr \/ RetCount \/ RetValue
TraceSpec == TInit /\ [][TNext]_vars

\* every event consumed
Accepted == IF TLCGet("stats").diameter - 1 = Len(Rec) THEN TRUE
            ELSE Print(<<"REJECTED", ToJson([matched |-> TLCGet("stats").diameter - 1, total |-> Len(Rec),
                         next |-> IF TLCGet("stats").diameter <= Len(Rec) THEN Rec[TLCGet("stats").diameter] ELSE [ev |-> "none"]])>>, FALSE)
=============================================================================
