SPECIFICATION Spec
CONSTANTS
  NaN = NaN
  Alphabet <- AlphaMac3
  MaxLen = 3
  AppPatterns <- AppsAll
  Data0 <- D2
  MinLen = 1
INVARIANTS TypeOK CountInv UnderflowInv RefInv FreshStackInv Emit
CHECK_DEADLOCK FALSE
