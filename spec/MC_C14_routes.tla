---------------------------- MODULE MC_C14_routes ----------------------------
(* C14, numeric route pairs: every pair of spec/Routes.tla *)
EXTENDS Routes
AllPairs == Pairs
=============================================================================
