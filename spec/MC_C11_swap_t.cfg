SPECIFICATION SpecS
CONSTANTS
  FromSet <- NoSuffixS
  ToSet <- NoSuffixS
  MaxLen = 5
  Hi = 5
INVARIANTS SwapInv SharedInv EmitS
CHECK_DEADLOCK FALSE
