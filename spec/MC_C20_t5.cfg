SPECIFICATION Spec
CONSTANTS
  B = 5
  Shapes <- ShapesT
  DEV_EmptyFinalBatch = FALSE
INVARIANTS TypeOK OrderInv OneLinePerCoordInv StatusInv EmptyInputInv BatchInv InvarianceInv RunsInv FailedLinesInv RefusalInv Emit
CHECK_DEADLOCK FALSE
