SPECIFICATION Spec
CONSTANTS
  Ctxs <- C2
  MaxLen = 4
  WithGrids = TRUE
VIEW view
INVARIANTS UniqueHandles ObjInv EmitInv
PROPERTY Immutable
CHECK_DEADLOCK FALSE
