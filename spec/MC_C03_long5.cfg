SPECIFICATION Spec
CONSTANTS
  NaN = NaN
  Progs <- ProgsLong
  Resources <- Res
  Globals <- NoGlobals
  Data0 <- D2
  LoneSpelled <- LoneSet
  Styles <- Styles1
INVARIANTS RefInv ReversalInv CountInv RoundTripInv ExpansionInv Emit
CHECK_DEADLOCK FALSE
