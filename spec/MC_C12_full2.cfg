SPECIFICATION Spec
CONSTANTS
  NaN = NaN
  Alphabet <- AlphaFull
  MaxLen = 2
  AppPatterns <- AppsAll
  Data0 <- D2
  MinLen = 2
INVARIANTS TypeOK CountInv UnderflowInv RefInv FreshStackInv Emit
CHECK_DEADLOCK FALSE
