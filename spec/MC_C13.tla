------------------------------- MODULE MC_C13 -------------------------------
EXTENDS ProjParams

\* ---- shapes: literal shape arguments and the point lattice of their domain (tenths of a degree)
Sh(txt, lonc, dlons, lats) == [txt |-> txt, lat0 |-> None, lat1 |-> None, lat2 |-> None, lonc |-> lonc, dlons |-> dlons, lats |-> lats]
Lcc(l0, l1, l2, dlons, lats) == [txt |-> "", lat0 |-> l0, lat1 |-> l1, lat2 |-> l2, lonc |-> None, dlons |-> dlons, lats |-> lats]

Near == <<-30, 7, 25>>          \* longitudes relative to the centre
Wide == <<-80, 5, 60>>
MercShape   == Sh("", None, Wide, <<-600, -123, 350, 710>>)
TmShape     == Sh("", None, Near, <<-600, 120, 550, 780>>)
\* ... and with a latitude of origin in either hemisphere (jointly with every k_0, x_0, y_0, lon_0 of the lattice)
TmShapes    == {TmShape, Sh("lat_0=49", None, Near, <<400, 490, 600>>), Sh("lat_0=-33", None, Near, <<-450, -330, -100>>)}
LccShapes   == {Lcc(None, 33, 45, Wide, <<310, 395, 450>>),
                Lcc(None, 57, None, Wide, <<490, 575, 630>>),        \* one parallel
                Lcc(None, 57, 57, Wide, <<490, 575, 630>>),          \* ... and its two-parallel spelling
                Lcc(-35, -30, -40, Wide, <<-430, -352, -270>>)}
LaeaShapes  == {Sh("lat_0=52", None, Wide, <<440, 525, 600>>),
                Sh("", None, Wide, <<-200, 5, 300>>),                 \* equatorial aspect
                Sh("lat_0=90", None, Wide, <<600, 750, 850>>),       \* polar aspects
                Sh("lat_0=-90", None, Wide, <<-850, -750, -600>>)}
OmercShapes == {Sh("latc=4 lonc=115 alpha=53.3158204722 gamma_c=53.1301023611 variant", 115, Near, <<10, 54, 80>>),
                Sh("latc=4 lonc=115 alpha=53.3158204722 gamma_c=53.1301023611", 115, Near, <<10, 54, 80>>)}
SomercShapes == {Sh("lat_0=46.9524055555556", None, Near, <<455, 470, 480>>)}

\* ---- parameter lattice
K2 == [n |-> 2, d |-> 1, txt |-> "2"]
X0s == {None, 500000, -1234}
Y0s == {None, 10000000, 77}
Ks  == {None, K9996, K2}
Lon0sQ == {None, 9, -100}
Lon0sT == {None, 9, -100, 177}
Arf(m) == [kind |-> "arf", m |-> m, rf |-> "298.257223563"]
Named(n) == [kind |-> "named", name |-> n]
EllsQ == {None, Arf(1), Arf(2)}
EllsT == {None, Arf(1), Arf(2), Arf(3), Named("intl")}

Acc(p, key, S) == IF key \in Accepts(p) THEN S ELSE {None}
Plain(p, shapes, Ls, Es) ==
    {[proj |-> p, shape |-> s, x0 |-> x, y0 |-> y, k |-> k, lon0 |-> l, ell |-> e, zone |-> None, south |-> FALSE, latts |-> None] :
        s \in shapes, x \in Acc(p, "x_0", X0s), y \in Acc(p, "y_0", Y0s), k \in Acc(p, "k_0", Ks), l \in Acc(p, "lon_0", Ls), e \in Es}
\* merc with a latitude of true scale (k_0 absent), on "a,rf" ellipsoids and on the built-in spheres
LatTs(Ts, Es) ==
    {[proj |-> "merc", shape |-> MercShape, x0 |-> x, y0 |-> None, k |-> None, lon0 |-> l, ell |-> e, zone |-> None, south |-> FALSE, latts |-> t] :
        x \in {None, 500000}, l \in {None, 9}, e \in Es, t \in Ts}
\* merc and webmerc on the built-in spheres
OnSpheres ==
    UNION {Plain("merc", {MercShape}, {None, 9}, {Named(n)}) \cup Plain("webmerc", {MercShape}, {None}, {Named(n)}) : n \in Spheres}
Utm(Zones, Es) ==
    {[proj |-> p, shape |-> TmShape, x0 |-> None, y0 |-> None, k |-> None, lon0 |-> None, ell |-> e, zone |-> z, south |-> s, latts |-> None] :
        p \in {"utm", "butm"}, z \in Zones, s \in BOOLEAN, e \in Es}
\* the explicit twins of the derived operators must be among the definitions for the bit-identical comparison
UtmTwins(Zones, Es) == {UtmTwin(d) : d \in Utm(Zones, Es)}
Noops ==
    {[proj |-> n, shape |-> Sh(a, None, Wide, <<-600, 0, 550>>), x0 |-> x, y0 |-> None, k |-> None, lon0 |-> None, ell |-> None,
      zone |-> None, south |-> FALSE, latts |-> None] :
        n \in NoopAliases, a \in {"", "all these parameters are=ignored", "helmert x=84 y=96 z=116"}, x \in {None, 500000}}

\* ---- every built-in ellipsoid (names as documented in the ellipsoid table; drift against the
\* code's table is reported by the driver as uncovered): per ellipsoid, the canonical and a fully
\* parameterised definition of every projection, three zones of utm/butm with their twins
BuiltinEllipsoids == {"MERIT", "SGS85", "GRS80", "IAU76", "airy", "APL4.9", "NWL9D", "mod_airy", "andrae", "danish", "aust_SA", "GRS67", "GSK2011", "bessel", "bess_nam", "clrk66", "clrk80", "clrk80ign", "CPM", "delmbr", "engelis", "evrst30", "evrst48", "evrst56", "evrst69", "evrstSS", "fschr60", "fschr60m", "fschr68", "helmert", "hough", "intl", "krass", "kaula", "lerch", "mprts", "new_intl", "plessis", "PZ90", "SEasia", "walbeck", "WGS60", "WGS66", "WGS72", "WGS84", "sphere", "unitsphere"}
Full(p, s, e) == [proj |-> p, shape |-> s,
                  x0 |-> IF "x_0" \in Accepts(p) THEN 500000 ELSE None, y0 |-> IF "y_0" \in Accepts(p) THEN 10000000 ELSE None,
                  k |-> IF "k_0" \in Accepts(p) THEN K9996 ELSE None, lon0 |-> IF "lon_0" \in Accepts(p) THEN 9 ELSE None,
                  ell |-> e, zone |-> None, south |-> FALSE, latts |-> None]
Bare(p, s, e) == [proj |-> p, shape |-> s, x0 |-> None, y0 |-> None, k |-> None, lon0 |-> None,
                  ell |-> e, zone |-> None, south |-> FALSE, latts |-> None]
OneShape == {<<"merc", MercShape>>, <<"webmerc", MercShape>>, <<"tmerc", TmShape>>, <<"btmerc", TmShape>>,
             <<"lcc", Lcc(None, 33, 45, Wide, <<310, 395, 450>>)>>, <<"laea", Sh("lat_0=52", None, Wide, <<440, 525, 600>>)>>,
             <<"omerc", Sh("latc=4 lonc=115 alpha=53.3158204722 gamma_c=53.1301023611 variant", 115, Near, <<10, 54, 80>>)>>,
             <<"somerc", Sh("lat_0=46.9524055555556", None, Near, <<455, 470, 480>>)>>}
EllSweep == UNION {{Full(ps[1], ps[2], Named(n)) : ps \in OneShape} \cup {Bare(ps[1], ps[2], Named(n)) : ps \in OneShape}
                   \cup Utm({1, 32, 60}, {Named(n)}) \cup UtmTwins({1, 32, 60}, {Named(n)}) : n \in BuiltinEllipsoids}

Core(Ls, Es) ==
         Plain("merc", {MercShape}, Ls, Es) \cup Plain("webmerc", {MercShape}, Ls, Es)
    \cup Plain("tmerc", TmShapes, Ls, Es) \cup Plain("btmerc", TmShapes, Ls, Es)
    \cup Plain("lcc", LccShapes, Ls, Es) \cup Plain("laea", LaeaShapes, Ls, Es)
    \cup Plain("omerc", OmercShapes, Ls, Es) \cup Plain("somerc", SomercShapes, Ls, Es)

DefsQ == Core(Lon0sQ, EllsQ) \cup LatTs({56}, {Arf(1), Named("sphere")}) \cup OnSpheres
         \cup Utm(1..60, {None, Arf(1)}) \cup UtmTwins(1..60, {None, Arf(1)}) \cup Noops
DefsT == Core(Lon0sT, EllsT) \cup LatTs({56, -30, 89}, {Arf(1), Arf(2), Named("sphere"), Named("unitsphere")}) \cup OnSpheres
         \cup Utm(1..60, {None, Arf(1), Arf(2), Named("intl")}) \cup UtmTwins(1..60, {None, Arf(1), Arf(2), Named("intl")}) \cup Noops
         \cup EllSweep
=============================================================================
