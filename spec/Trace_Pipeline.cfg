SPECIFICATION TraceSpec
CONSTANTS
  NaN = NaN
  Progs <- Progs2
  Resources <- Res
  Globals <- NoGlobals
  Data0 <- D2
  Styles <- StylesAll
CONSTRAINT Progress
POSTCONDITION Accepted
CHECK_DEADLOCK FALSE
