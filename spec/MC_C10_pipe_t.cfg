SPECIFICATION Spec
CONSTANTS
  N = 3
  MaxOmit = 0
  PipeIds <- PipeIdsQ
INVARIANTS SaneInv Emit
CHECK_DEADLOCK FALSE
