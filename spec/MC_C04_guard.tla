---------------------------- MODULE MC_C04_guard ----------------------------
EXTENDS MacroGuard
N3 == {"m:x", "m:y", "m:z"}
Steps == N3 \cup {"leaf"}
Bodies == UNION {[1..n -> Steps] : n \in 1..2}
\* every resource graph over three names with bodies of one or two steps:
\* all self-referential and mutually recursive ones included
AllGraphs == [N3 -> Bodies]

\* long chains and long cycles (simulation / second configuration)
ChainNames(d) == {"m:c" \o ToString(i) : i \in 1..d}
Chain(d, piped, closed) ==
    [n \in ChainNames(d) |->
        LET k == CHOOSE i \in 1..d : n = "m:c" \o ToString(i)
            nxt == IF k < d THEN "m:c" \o ToString(k + 1) ELSE IF closed THEN "m:c1" ELSE "leaf"
        IN IF piped THEN <<"leaf", nxt>> ELSE <<nxt>>]
Chains == {Chain(d, p, c) : d \in 1..60, p \in BOOLEAN, c \in BOOLEAN}
\* fan-out: every level invokes the next one twice (2^d elementary operators); the guard bounds the depth
\* of the walk, not its work, which is only bounded by (widest body)^L
FanNames(d) == {"m:f" \o ToString(i) : i \in 1..d}
Fan(d) == [n \in FanNames(d) |->
             LET k == CHOOSE i \in 1..d : n = "m:f" \o ToString(i)
                 nxt == IF k < d THEN "m:f" \o ToString(k + 1) ELSE "leaf"
             IN <<nxt, nxt>>]
Fans == {Fan(d) : d \in 1..8}
ChainsAndFans == Chains \cup Fans
=============================================================================
