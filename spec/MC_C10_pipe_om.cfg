SPECIFICATION Spec
CONSTANTS
  N = 3
  MaxOmit = 2
  PipeIds <- PipeIdsOm
INVARIANTS SaneInv Emit
CHECK_DEADLOCK FALSE
