SPECIFICATION Spec
CONSTANTS
  Files <- FilesQ
INVARIANTS RoundTripInv LayoutInv LengthInv TotalityInv TruncInv EmitFile
CHECK_DEADLOCK FALSE
