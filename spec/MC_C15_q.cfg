SPECIFICATION Spec
CONSTANTS
  Files <- FilesQ
INVARIANTS FrameRuleInv FrameRuleWitness RoundTripInv LayoutInv LengthInv TotalityInv TruncInv EmitFile
CHECK_DEADLOCK FALSE
