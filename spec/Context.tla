------------------------------ MODULE Context ------------------------------
(***************************************************************************)
(* C18.  The registry state machine of a context provider (Minimal and     *)
(* Plain) and the process-wide grid cache.                                  *)
(*                                                                         *)
(*   cons[c]   user-registered operator constructors: name -> version      *)
(*   res[c]    run-time registered resources (macros): name -> body        *)
(*   ops       every operator ever instantiated: handle -> [c, val, obj]   *)
(*             val is the operator's *behaviour* as fixed at instantiation *)
(*             (here: what it adds to the first coordinate), obj the grid  *)
(*             object it captured (0: none)                                *)
(*   cache     the grid cache shared by all Plain contexts: name -> obj    *)
(*                                                                         *)
(* Behaviour of the names used (so that resolution is observable):         *)
(*   built-in  addone            adds 1                                    *)
(*   built-in  push v_1, stack push=1 (steps of a pipeline) add 0: they    *)
(*             copy a coordinate to the pipeline's stack                   *)
(*   user op   version v         adds 10 * v                               *)
(*   literal   "lit100","lit200" the probe t_add c=100 / c=200             *)
(* A macro body is a name - resolved when the macro is instantiated - or a *)
(* literal.  The sum of a pipeline's step values is its value.             *)
(* The sets of names and definitions are replaced in MC_C18_names*.cfg     *)
(* (user operators named push / stack; resources without a colon).         *)
(***************************************************************************)
EXTENDS Integers, Sequences, FiniteSets, TLC, Json

CONSTANTS Ctxs,        \* context ids
          MaxLen,      \* history length bound
          WithGrids    \* BOOLEAN: include the grid cache actions (Plain only)

\* ---- the names (every set can be replaced in a cfg: `X <- Y`; the base sets are those of the first build) ----
\* user operator names.  "addone" collides with an ordinary built-in; "push" and "stack" collide with the
\* built-ins that the pipeline operator executes itself (the stack machine): Rumination 000, "the user defined
\* operators overshadow the built-in names for any subsequent instantiations" - inside pipelines as well
OpNames  == {"addone", "myop"}
Versions == {1, 2}
\* what a built-in adds to the first coordinate.  `push v_1` and `stack push=1` copy the first coordinate
\* onto the pipeline's stack and leave the operands alone (Rumination 002, operators `push`, `stack`)
BuiltinVal == [addone |-> 1, push |-> 0, stack |-> 0]
Builtins == DOMAIN BuiltinVal
\* built-ins that mean something only as steps of a pipeline: a definition that resolves to one of them
\* standing alone is not documented, hence not generated (neither as success nor as failure)
OnlyInPipelines == {"push", "stack"}
MacroNames == {"m:x"}
\* resources registered under a name WITHOUT a colon are never taken for macros (Rumination 000: "macros
\* cannot overshadow built-ins: ... macros need to indicate their macro-identity by including a `:`-sigil in
\* their name"): neither a built-in nor an unknown name is affected by them
PlainResNames == {}
PlainResBodies == {"lit100"}
Bodies   == {"addone", "myop", "lit100", "lit200", "m:x"}   \* "m:x": self reference
\* a definition and the names of its steps.
\* "addone k=a:b" / "myop k=a:b": a colon in a parameter VALUE does not make the name a macro name
DefSteps == [d \in {"addone", "myop", "m:x", "push v_1", "stack push=1"} |-> <<d>>] @@
            ( "addone | m:x"          :> <<"addone", "m:x">> @@
              "m:x | myop"            :> <<"m:x", "myop">> @@
              "m:x | addone"          :> <<"m:x", "addone">> @@
              "addone k=a:b"          :> <<"addone">> @@
              "myop k=a:b"            :> <<"myop">> @@
              "push v_1 | addone"     :> <<"push v_1", "addone">> @@
              "addone | stack push=1" :> <<"addone", "stack push=1">> @@
              "push v_1 | addone | stack push=1" :> <<"push v_1", "addone", "stack push=1">> )
Defs     == {"addone", "myop", "m:x", "addone | m:x", "m:x | myop", "addone k=a:b", "myop k=a:b"}
GridNames == {"g1.datum", "g2.datum"}
\* the operator name of a step / of a macro body (text with parameters)
NameOf(t) == CASE t = "push v_1" -> "push" [] t = "stack push=1" -> "stack" [] OTHER -> t

ASSUME /\ Defs \subseteq DOMAIN DefSteps
       /\ OpNames \cap MacroNames = {} /\ PlainResNames \cap MacroNames = {}

VARIABLES cons, res, ops, cache, nextObj, hist
vars == <<cons, res, ops, cache, nextObj, hist>>
view == <<cons, res, ops, cache, nextObj>>      \* hist is observation only

\* sb: the operator is a bare pipeline-only built-in (see OnlyInPipelines)
Ok(v)  == [ok |-> TRUE, v |-> v, sb |-> FALSE]
Err    == [ok |-> FALSE, v |-> 0, sb |-> FALSE]

\* ---- resolution: the documented order ------------------------------------
\* pipeline first (handled by ResolveDef), then user-registered operator,
\* then macro for names containing a colon, then built-in
IsMacroName(n) == n \in MacroNames

RECURSIVE ResolveName(_, _, _)
ResolveName(c, t, fuel) ==
    LET n == NameOf(t) IN
    IF fuel = 0 THEN Err                                   \* the recursion guard
    ELSE IF n = "lit100" THEN Ok(100) ELSE IF n = "lit200" THEN Ok(200)
    ELSE IF ~IsMacroName(n) /\ n \in DOMAIN cons[c] THEN Ok(10 * cons[c][n])
    ELSE IF IsMacroName(n)
         THEN IF n \in DOMAIN res[c] THEN ResolveName(c, res[c][n], fuel - 1) ELSE Err
    ELSE IF n \in Builtins THEN [ok |-> TRUE, v |-> BuiltinVal[n], sb |-> n \in OnlyInPipelines]
    ELSE Err

StepsOf(d) == IF d \in DOMAIN DefSteps THEN DefSteps[d] ELSE <<d>>

RECURSIVE SumTo(_, _)
SumTo(r, k) == IF k = 0 THEN 0 ELSE r[k].v + SumTo(r, k - 1)

\* judged: FALSE for a definition that is a bare pipeline-only built-in (not documented: not generated)
ResolveDef(c, d) ==
    LET s == StepsOf(d)
        r == [i \in 1..Len(s) |-> ResolveName(c, s[i], 4)]
    IN IF \E i \in 1..Len(s) : ~r[i].ok THEN [ok |-> FALSE, v |-> 0, judged |-> TRUE]
       ELSE [ok |-> TRUE, v |-> SumTo(r, Len(s)), judged |-> ~(Len(s) = 1 /\ r[1].sb)]

\* ---- actions --------------------------------------------------------------
Handles == DOMAIN ops
NewHandle == Cardinality(Handles) + 1

Record(e) == hist' = Append(hist, e)
Room == Len(hist) < MaxLen

Init == /\ cons = [c \in Ctxs |-> <<>>] /\ res = [c \in Ctxs |-> <<>>]
        /\ ops = <<>> /\ cache = <<>> /\ nextObj = 1 /\ hist = <<>>

RegisterOp == /\ Room
              /\ \E c \in Ctxs, n \in OpNames, v \in Versions :
                    /\ cons' = [cons EXCEPT ![c] = (n :> v) @@ @]
                    /\ Record([a |-> "regop", c |-> c, n |-> n, v |-> v])
              /\ UNCHANGED <<res, ops, cache, nextObj>>

RegisterResource == /\ Room
                    /\ \E c \in Ctxs, n \in MacroNames \cup PlainResNames :
                       \E b \in (IF n \in MacroNames THEN Bodies ELSE PlainResBodies) :
                          /\ res' = [res EXCEPT ![c] = (n :> b) @@ @]
                          /\ Record([a |-> "regres", c |-> c, n |-> n, b |-> b])
                    /\ UNCHANGED <<cons, ops, cache, nextObj>>

\* Context::op: a new, unique handle whose behaviour is fixed now
OpOk == /\ Room
        /\ \E c \in Ctxs, d \in Defs :
              LET r == ResolveDef(c, d) IN
              /\ r.ok /\ r.judged
              /\ ops' = ops @@ (NewHandle :> [c |-> c, val |-> r.v, obj |-> 0])
              /\ Record([a |-> "op", c |-> c, d |-> d, ok |-> TRUE, val |-> r.v, h |-> NewHandle])
        /\ UNCHANGED <<cons, res, cache, nextObj>>

\* unknown names give errors and leave everything as it was
OpErr == /\ Room
         /\ \E c \in Ctxs, d \in Defs \cup {"nosuch", "m:nosuch"} :
               /\ d \in Defs => ~ResolveDef(c, d).ok
               /\ Record([a |-> "op", c |-> c, d |-> d, ok |-> FALSE, val |-> 0, h |-> 0])
         /\ UNCHANGED <<cons, res, ops, cache, nextObj>>

\* instantiating a grid operator: the grid comes from the shared cache, or is
\* loaded into it; the operator keeps (shares ownership of) the object
OpGrid == /\ WithGrids /\ Room
          /\ \E c \in Ctxs, g \in GridNames :
                IF g \in DOMAIN cache
                THEN /\ ops' = ops @@ (NewHandle :> [c |-> c, val |-> 0, obj |-> cache[g]])
                     /\ Record([a |-> "opgrid", c |-> c, g |-> g, ev |-> "hit", obj |-> cache[g], h |-> NewHandle])
                     /\ UNCHANGED <<cache, nextObj>>
                ELSE /\ ops' = ops @@ (NewHandle :> [c |-> c, val |-> 0, obj |-> nextObj])
                     /\ cache' = (g :> nextObj) @@ cache
                     /\ nextObj' = nextObj + 1
                     /\ Record([a |-> "opgrid", c |-> c, g |-> g, ev |-> "load", obj |-> nextObj, h |-> NewHandle])
          /\ UNCHANGED <<cons, res>>

\* Plain::clear_grids(): the cache forgets; operators keep what they captured
ClearGrids == /\ WithGrids /\ Room /\ cache # <<>>
              /\ cache' = <<>>
              /\ Record([a |-> "clear"])
              /\ UNCHANGED <<cons, res, ops, nextObj>>

Next == RegisterOp \/ RegisterResource \/ OpOk \/ OpErr \/ OpGrid \/ ClearGrids
Spec == Init /\ [][Next]_vars

\* ---- properties -----------------------------------------------------------
\* Once instantiated, an operation never changes, whatever happens later
Immutable == [][\A h \in DOMAIN ops : h \in DOMAIN ops' /\ ops'[h] = ops[h]]_vars
\* every handle is unique: handles are never reissued
UniqueHandles == \A i, j \in 1..Len(hist) :
    (hist[i].a \in {"op", "opgrid"} /\ hist[j].a \in {"op", "opgrid"} /\ i # j
        /\ hist[i].h # 0 /\ hist[j].h # 0) => hist[i].h # hist[j].h
\* a registration affects only definitions instantiated afterwards
\* (follows from Immutable; stated on the history for the replay)
\* live grid objects are never confused: two different loads never share an id
ObjInv == \A h \in DOMAIN ops : ops[h].obj < nextObj

\* ---- behaviour export: one history per reachable state --------------------
Emit == PrintT(<<"HIST", ToJson([hist |-> hist,
            handles |-> [h \in DOMAIN ops |-> ops[h]],
            cache |-> cache])>>)
EmitInv == (Len(hist) > 0) => Emit
\* ... and one history per TRANSITION (an action constraint is evaluated for every generated
\* successor, also those leading to a state already seen): a path to the source state plus this
\* action.  Two definitions that resolve to the same behaviour lead to the same state; only this
\* export replays both.
EmitEdge == PrintT(<<"HIST", ToJson([hist |-> hist'])>>)
=============================================================================
