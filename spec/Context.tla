------------------------------ MODULE Context ------------------------------
(***************************************************************************)
(* C18.  The registry state machine of a context provider (Minimal and     *)
(* Plain) and the process-wide grid cache.                                  *)
(*                                                                         *)
(*   cons[c]   user-registered operator constructors: name -> version      *)
(*   res[c]    run-time registered resources (macros): name -> body        *)
(*   ops       every operator ever instantiated: handle -> [c, val, obj]   *)
(*             val is the operator's *behaviour* as fixed at instantiation *)
(*             (here: what it adds to the first coordinate), obj the grid  *)
(*             object it captured (0: none)                                *)
(*   cache     the grid cache shared by all Plain contexts: name -> obj    *)
(*                                                                         *)
(* Behaviour of the names used (so that resolution is observable):         *)
(*   built-in  addone            adds 1                                    *)
(*   user op   version v         adds 10 * v                               *)
(*   literal   "lit100","lit200" the probe t_add c=100 / c=200             *)
(* A macro body is a name - resolved when the macro is instantiated - or a *)
(* literal.  The sum of a pipeline's step values is its value.             *)
(***************************************************************************)
EXTENDS Integers, Sequences, FiniteSets, TLC, Json

CONSTANTS Ctxs,        \* context ids
          MaxLen,      \* history length bound
          WithGrids    \* BOOLEAN: include the grid cache actions (Plain only)

OpNames  == {"addone", "myop"}                 \* "addone" collides with a built-in
Builtins == {"addone"}
MacroNames == {"m:x"}
Bodies   == {"addone", "myop", "lit100", "lit200", "m:x"}   \* "m:x": self reference
\* "addone k=a:b" / "myop k=a:b": a colon in a parameter VALUE does not make the name a macro name
Defs     == {"addone", "myop", "m:x", "addone | m:x", "m:x | myop", "addone k=a:b", "myop k=a:b"}
GridNames == {"g1.datum", "g2.datum"}

VARIABLES cons, res, ops, cache, nextObj, hist
vars == <<cons, res, ops, cache, nextObj, hist>>
view == <<cons, res, ops, cache, nextObj>>      \* hist is observation only

Ok(v)  == [ok |-> TRUE, v |-> v]
Err    == [ok |-> FALSE]

\* ---- resolution: the documented order ------------------------------------
\* pipeline first (handled by ResolveDef), then user-registered operator,
\* then macro for names containing a colon, then built-in
IsMacroName(n) == n \in MacroNames

RECURSIVE ResolveName(_, _, _)
ResolveName(c, n, fuel) ==
    IF fuel = 0 THEN Err                                   \* the recursion guard
    ELSE IF n = "lit100" THEN Ok(100) ELSE IF n = "lit200" THEN Ok(200)
    ELSE IF ~IsMacroName(n) /\ n \in DOMAIN cons[c] THEN Ok(10 * cons[c][n])
    ELSE IF IsMacroName(n)
         THEN IF n \in DOMAIN res[c] THEN ResolveName(c, res[c][n], fuel - 1) ELSE Err
    ELSE IF n \in Builtins THEN Ok(1)
    ELSE Err

StepsOf(d) == CASE d = "addone | m:x" -> <<"addone", "m:x">>
                [] d = "m:x | myop"   -> <<"m:x", "myop">>
                [] d = "addone k=a:b" -> <<"addone">>
                [] d = "myop k=a:b"   -> <<"myop">>
                [] OTHER -> <<d>>

ResolveDef(c, d) ==
    LET s == StepsOf(d)
        r == [i \in 1..Len(s) |-> ResolveName(c, s[i], 4)]
    IN IF \E i \in 1..Len(s) : ~r[i].ok THEN Err
       ELSE Ok(IF Len(s) = 1 THEN r[1].v ELSE r[1].v + r[2].v)

\* ---- actions --------------------------------------------------------------
Handles == DOMAIN ops
NewHandle == Cardinality(Handles) + 1

Record(e) == hist' = Append(hist, e)
Room == Len(hist) < MaxLen

Init == /\ cons = [c \in Ctxs |-> <<>>] /\ res = [c \in Ctxs |-> <<>>]
        /\ ops = <<>> /\ cache = <<>> /\ nextObj = 1 /\ hist = <<>>

RegisterOp == /\ Room
              /\ \E c \in Ctxs, n \in OpNames, v \in {1, 2} :
                    /\ cons' = [cons EXCEPT ![c] = (n :> v) @@ @]
                    /\ Record([a |-> "regop", c |-> c, n |-> n, v |-> v])
              /\ UNCHANGED <<res, ops, cache, nextObj>>

RegisterResource == /\ Room
                    /\ \E c \in Ctxs, n \in MacroNames, b \in Bodies :
                          /\ res' = [res EXCEPT ![c] = (n :> b) @@ @]
                          /\ Record([a |-> "regres", c |-> c, n |-> n, b |-> b])
                    /\ UNCHANGED <<cons, ops, cache, nextObj>>

\* Context::op: a new, unique handle whose behaviour is fixed now
OpOk == /\ Room
        /\ \E c \in Ctxs, d \in Defs :
              LET r == ResolveDef(c, d) IN
              /\ r.ok
              /\ ops' = ops @@ (NewHandle :> [c |-> c, val |-> r.v, obj |-> 0])
              /\ Record([a |-> "op", c |-> c, d |-> d, ok |-> TRUE, val |-> r.v, h |-> NewHandle])
        /\ UNCHANGED <<cons, res, cache, nextObj>>

\* unknown names give errors and leave everything as it was
OpErr == /\ Room
         /\ \E c \in Ctxs, d \in Defs \cup {"nosuch", "m:nosuch"} :
               /\ d \in Defs => ~ResolveDef(c, d).ok
               /\ Record([a |-> "op", c |-> c, d |-> d, ok |-> FALSE, val |-> 0, h |-> 0])
         /\ UNCHANGED <<cons, res, ops, cache, nextObj>>

\* instantiating a grid operator: the grid comes from the shared cache, or is
\* loaded into it; the operator keeps (shares ownership of) the object
OpGrid == /\ WithGrids /\ Room
          /\ \E c \in Ctxs, g \in GridNames :
                IF g \in DOMAIN cache
                THEN /\ ops' = ops @@ (NewHandle :> [c |-> c, val |-> 0, obj |-> cache[g]])
                     /\ Record([a |-> "opgrid", c |-> c, g |-> g, ev |-> "hit", obj |-> cache[g], h |-> NewHandle])
                     /\ UNCHANGED <<cache, nextObj>>
                ELSE /\ ops' = ops @@ (NewHandle :> [c |-> c, val |-> 0, obj |-> nextObj])
                     /\ cache' = (g :> nextObj) @@ cache
                     /\ nextObj' = nextObj + 1
                     /\ Record([a |-> "opgrid", c |-> c, g |-> g, ev |-> "load", obj |-> nextObj, h |-> NewHandle])
          /\ UNCHANGED <<cons, res>>

\* Plain::clear_grids(): the cache forgets; operators keep what they captured
ClearGrids == /\ WithGrids /\ Room /\ cache # <<>>
              /\ cache' = <<>>
              /\ Record([a |-> "clear"])
              /\ UNCHANGED <<cons, res, ops, nextObj>>

Next == RegisterOp \/ RegisterResource \/ OpOk \/ OpErr \/ OpGrid \/ ClearGrids
Spec == Init /\ [][Next]_vars

\* ---- properties -----------------------------------------------------------
\* Once instantiated, an operation never changes, whatever happens later
Immutable == [][\A h \in DOMAIN ops : h \in DOMAIN ops' /\ ops'[h] = ops[h]]_vars
\* every handle is unique: handles are never reissued
UniqueHandles == \A i, j \in 1..Len(hist) :
    (hist[i].a \in {"op", "opgrid"} /\ hist[j].a \in {"op", "opgrid"} /\ i # j
        /\ hist[i].h # 0 /\ hist[j].h # 0) => hist[i].h # hist[j].h
\* a registration affects only definitions instantiated afterwards
\* (follows from Immutable; stated on the history for the replay)
\* live grid objects are never confused: two different loads never share an id
ObjInv == \A h \in DOMAIN ops : ops[h].obj < nextObj

\* ---- behaviour export: one history per reachable state --------------------
Emit == PrintT(<<"HIST", ToJson([hist |-> hist,
            handles |-> [h \in DOMAIN ops |-> ops[h]],
            cache |-> cache])>>)
EmitInv == (Len(hist) > 0) => Emit
\* ... and one history per TRANSITION (an action constraint is evaluated for every generated
\* successor, also those leading to a state already seen): a path to the source state plus this
\* action.  Two definitions that resolve to the same behaviour lead to the same state; only this
\* export replays both.
EmitEdge == PrintT(<<"HIST", ToJson([hist |-> hist'])>>)
=============================================================================
