------------------------------ MODULE RoundTrip ------------------------------
(***************************************************************************)
(* C01, the validated assumption: "for every invertible built-in operator, *)
(* every valid parameterisation and every coordinate inside the documented *)
(* domain, forward-then-inverse returns the original coordinate to within  *)
(* the operator's stated accuracy, and the same holds inverse-then-forward"*)
(*                                                                         *)
(* The free-group model of C01 takes g^-1 g = g g^-1 = id as an axiom for  *)
(* every invertible catalogue operator.  This module is the catalogue side *)
(* of that axiom: per operator family its ACCURACY CLASS (from the          *)
(* statement), its CONFIGURATION lattice (aspects, hemispheres, 1SP/2SP,   *)
(* variants, every built-in ellipsoid) and an integer degree / metre POINT *)
(* lattice inside the documented domain.  TLC enumerates configuration x   *)
(* point x order and checks that every point lies inside the documented    *)
(* domain (DomainInv); the harness evaluates the residual on the ground.   *)
(*                                                                         *)
(* Accuracy classes (micrometres on the ground):                           *)
(*    exact     0       permutations and translations                      *)
(*    rigorous  10      "a few micrometres or better"                      *)
(*    approx    1000    btmerc/butm, omerc ("millimetre level")            *)
(*    approx20  20000   molodensky ("millimetre level": its forward and    *)
(*                      inverse differ by second-order terms of the shift, *)
(*                      6-16 mm for shifts of 100-200 m up to |lat| = 70,  *)
(*                      growing with 1/cos(lat) beyond; |lat| <= 70)      *)
(***************************************************************************)
EXTENDS Integers, Sequences, FiniteSets, TLC, Json

CONSTANT Tier            \* "q" (quick) or "t" (thorough)
Q == Tier = "q"

\* every name of the built-in ellipsoid table (drift against the code's table is reported by the harness)
AllEllps == {"MERIT", "SGS85", "GRS80", "IAU76", "airy", "APL4.9", "NWL9D", "mod_airy", "andrae", "danish", "aust_SA", "GRS67",
    "GSK2011", "bessel", "bess_nam", "clrk66", "clrk80", "clrk80ign", "CPM", "delmbr", "engelis", "evrst30", "evrst48", "evrst56",
    "evrst69", "evrstSS", "fschr60", "fschr60m", "fschr68", "helmert", "hough", "intl", "krass", "kaula", "lerch", "mprts",
    "new_intl", "plessis", "PZ90", "SEasia", "walbeck", "WGS60", "WGS66", "WGS72", "WGS84", "sphere", "unitsphere"}
QuickEllps == {"GRS80", "intl", "bessel", "mprts", "sphere"}
Ellps == IF Q THEN QuickEllps ELSE AllEllps
NoEllps == {""}

Tol(cls) == CASE cls = "exact" -> 0 [] cls = "rigorous" -> 10 [] cls = "approx" -> 1000 [] cls = "approx20" -> 20000

Abs(x) == IF x < 0 THEN 0 - x ELSE x
S(i) == ToString(i)

\* a shape: a definition text without its ellipsoid, with what the point lattice and the domain need to know
\*   lon0, lat0  centre (integer degrees) the lattice is laid around
\*   dk, ik      kind of the tuples on the domain / image side (how the harness measures a residual on the ground)
\*   unit        metres per unit on the domain side (linear kinds)
\*   via         a definition applied (forward) to the lattice point to obtain the starting tuple ("" = none)
Sh(text, lon0, lat0) == [text |-> text, lon0 |-> lon0, lat0 |-> lat0, dk |-> "geo", ik |-> "prj", unit |-> "1", via |-> ""]
Kind(s, dk, ik) == [s EXCEPT !.dk = dk, !.ik = ik]

\* ---- integer lattices ----------------------------------------------------------
Lats89 == IF Q THEN {-89, -45, -1, 0, 30, 60, 89} ELSE {-89, -80, -70, -60, -45, -30, -15, -5, -1, 0, 1, 5, 15, 30, 45, 60, 70, 80, 89}
Lats90 == Lats89 \cup {-90, 90}
LonsGlobe == IF Q THEN {-180, -120, -30, 0, 15, 90, 179} ELSE {-180, -150, -120, -90, -60, -30, -10, -1, 0, 1, 10, 30, 60, 90, 120, 150, 179, 180}
DLon30 == IF Q THEN {-30, -10, 0, 3, 30} ELSE {-30, -25, -20, -15, -10, -6, -3, -1, 0, 1, 3, 6, 10, 15, 20, 25, 30}
DLon3 == IF Q THEN {-3, 0, 2} ELSE {-3, -2, -1, 0, 1, 2, 3}
Near == IF Q THEN {-3, 0, 2} ELSE {-3, -2, -1, 0, 1, 2, 3}
HeightsLow == IF Q THEN {-10000, 0, 100000} ELSE {-10000, -100, 0, 1000, 8848, 100000}
HeightsHigh == {1000000, 10000000}

\* points are 4-tuples of integers; their meaning (and text) depends on the domain kind of the shape
GeoPts(lons, lats, hs) == {<<lo, la, h, 2020>> : lo \in lons, la \in lats, h \in hs}
\* longitudes are WRITTEN in [-180, 180]: next to a central meridian of 179 the lattice crosses the date line, and the
\* meridian 2 degrees east of it is written -179, not 181 (the harmless spelling)
W(l) == IF l > 180 THEN l - 360 ELSE IF l < -180 THEN l + 360 ELSE l
DLon(l, l0) == LET d == IF l - l0 < 0 THEN l0 - l ELSE l - l0 IN IF d > 180 THEN 360 - d ELSE d
Around(s, dlons, lats, hs) == {<<W(s.lon0 + d), la, h, 2020>> : d \in dlons, la \in lats, h \in hs}

\* ---- families ----------------------------------------------------------------------
Families == {"tmerc", "utm", "btmerc", "butm", "merc", "webmerc", "lcc", "laea", "laea_np", "somerc", "omerc", "cart", "cart_high",
             "latitude", "helmert_translation", "helmert_exact", "gridshift", "deformation", "dm", "dms", "unitconvert",
             "permtide", "geodesic", "molodensky", "axisswap", "adapt", "adapt_angular", "addone", "noop"}

Class(f) ==
    CASE f \in {"axisswap", "adapt", "addone", "noop", "helmert_translation"} -> "exact"
      [] f \in {"btmerc", "butm", "omerc", "cart_high"} -> "approx"
      [] f = "molodensky" -> "approx20"
      [] OTHER -> "rigorous"
Ctx(f) == IF f \in {"gridshift", "deformation"} THEN "plain" ELSE "minimal"

TmText(name, lon0, lat0, rest) == name \o " lon_0=" \o S(lon0) \o (IF lat0 = 0 THEN "" ELSE " lat_0=" \o S(lat0)) \o rest
UtmShape(name, z, south) == Sh(name \o " zone=" \o S(z) \o (IF south THEN " south" ELSE ""), 6 * z - 183, 0)
LaeaShapes == {Sh("laea lat_0=" \o S(la) \o " lon_0=" \o S(lo) \o fo, lo, la) :
                 la \in {90, -90, 0, 52, -35}, lo \in {10}, fo \in (IF Q THEN {""} ELSE {"", " x_0=4321000 y_0=3210000"})}
LatFlags == {"geocentric", "reduced", "parametric", "conformal", "authalic", "rectifying"}
Tides == {"mean", "zero", "free"}
IntKind(s) == Kind(s, "int", "int")

Shapes(f) ==
    CASE f = "tmerc" -> {Sh(TmText("tmerc", lo, la, r), lo, la) : lo \in (IF Q THEN {9} ELSE {9, -177}), la \in {0, 49},
                                                                    r \in {"", " k_0=0.9996 x_0=500000 y_0=-100000"}}
      [] f = "utm" -> {UtmShape("utm", z, s) : z \in (IF Q THEN {32, 60} ELSE {1, 32, 60}), s \in BOOLEAN}
      [] f = "btmerc" -> {Sh(TmText("btmerc", lo, la, r), lo, la) : lo \in {9, 179}, la \in (IF Q THEN {0} ELSE {0, 49}), r \in {"", " k_0=0.9996 x_0=500000 y_0=-100000"}}
      [] f = "butm" -> {UtmShape("butm", z, s) : z \in (IF Q THEN {32, 60} ELSE {1, 32, 60}), s \in BOOLEAN}
      [] f = "merc" -> {Sh(t, 0, 0) : t \in {"merc", "merc lat_ts=56", "merc lat_ts=-30", "merc k_0=0.9996", "merc lon_0=9", "merc x_0=500000 y_0=-100000"}}
                    \* lat_0: the latitude of the projection centre (maps to the false northing)
                    \cup {Sh("merc lat_0=10", 0, 0), Sh("merc lat_0=-25 lon_0=9", 0, 0), Sh("merc lon_0=9 lat_0=54 lat_ts=56", 0, 0)}
      [] f = "webmerc" -> {Sh("webmerc", 0, 0)}
      [] f = "lcc" -> {Sh(t, 10, 0) : t \in {"lcc lat_1=57 lon_0=10", "lcc lat_1=-33 lon_0=10", "lcc lat_1=33 lat_2=45 lon_0=10", "lcc lat_1=-33 lat_2=-45 lon_0=10",
                                             "lcc lat_1=40 lat_2=60 lat_0=50 lon_0=10 k_0=0.9996 x_0=500000 y_0=-100000", "lcc lat_1=45 lat_2=45 lon_0=10"}}
                      \cup {Sh("lcc lat_1=33 lat_2=45", 0, 0)}
                      \* latitude of origin at a pole (polar aspect of the cone's apex: rho0 = 0)
                      \cup {Sh("lcc lat_1=75 lat_2=85 lat_0=90 lon_0=10", 10, 0), Sh("lcc lat_1=-70 lat_2=-80 lat_0=-90 lon_0=10", 10, 0)}
      [] f = "laea" -> LaeaShapes
      \* the same shapes, at points 1 km, 11 m and 0.1 m from a pole (the conditioning known for the pole itself reaches out)
      [] f = "laea_np" -> LaeaShapes
      [] f = "somerc" -> {Sh("somerc lat_0=46.9524055555556 lon_0=7.43958333333333 k_0=1 x_0=2600000 y_0=1200000", 7, 47), Sh("somerc lat_0=47 lon_0=8", 8, 47),
                           Sh("somerc lat_0=47 lon_0=179", 179, 47), Sh("somerc lat_0=-41 lon_0=-179", -179, -41)}
      [] f = "omerc" -> {Sh("omerc lonc=115 latc=4 alpha=53:18:56.9537 gamma_c=53:07:48.3685 k_0=0.99984", 115, 4),
                         Sh("omerc lonc=115 latc=4 alpha=53:18:56.9537 gamma_c=53:07:48.3685 k_0=0.99984 x_0=590476.87 y_0=442857.65 variant", 115, 4),
                         \* the Laborde form (no gamma_c), with and without `variant`; the southern hemisphere; alpha = 90
                         Sh("omerc latc=-18.9 lonc=46.43722917 alpha=18.9 k_0=0.9995 x_0=400000 y_0=800000", 46, -19),
                         Sh("omerc lonc=115 latc=4 alpha=53:18:56.9537 k_0=0.99984 variant", 115, 4),
                         Sh("omerc latc=40 lonc=20 alpha=90 gamma_c=90 variant", 20, 40),
                         Sh("omerc latc=-40 lonc=20 alpha=90 gamma_c=90", 20, -40),
                         Sh("omerc latc=-40 lonc=20 alpha=-30 gamma_c=-30 variant", 20, -40),
                         \* next to the date line
                         Sh("omerc latc=40 lonc=179 alpha=30 gamma_c=30", 179, 40), Sh("omerc latc=-17 lonc=-179 alpha=30 gamma_c=30 variant", -179, -17)}
      [] f \in {"cart", "cart_high"} -> {Kind(Sh("cart", 0, 0), "geo", "xyz")}
      [] f = "latitude" -> {Kind(Sh("latitude " \o g, 0, 0), "geo", "geo") : g \in LatFlags}
      [] f = "helmert_translation" -> {IntKind(Sh(t, 0, 0)) : t \in {"helmert x=-87 y=-96 z=-120", "helmert translation=1,2,3", "helmert x=1000000 z=-3"}}
      [] f = "helmert_exact" -> {Kind(Sh(t, 0, 0), "xyz", "xyz") : t \in {
              "helmert exact convention=position_vector x=0.06155 rx=-0.0394924 y=-0.01087 ry=-0.0327221 z=-0.04019 rz=-0.0328979 s=-0.009994",
              "helmert exact convention=coordinate_frame x=10 y=20 z=30 rx=1 ry=2 rz=3 s=1.5",
              "helmert exact convention=coordinate_frame x=-446.448 y=125.157 z=-542.06 rx=-0.1502 ry=-0.247 rz=-0.8421 s=20.4894",
              "helmert exact convention=position_vector x=0.06155 rx=-0.0394924 y=-0.01087 ry=-0.0327221 z=-0.04019 rz=-0.0328979 s=-0.009994 dx=-0.0001 drx=-0.0001 dy=0.0002 dry=0.0002 dz=0.0003 drz=-0.0003 ds=0.0001 t_epoch=2010"}}
      [] f = "gridshift" -> {Kind(Sh("gridshift grids=g1.datum", 11, 55), "geo", "geo"), Kind(Sh("gridshift grids=h1.geoid", 11, 55), "geo", "geo"),
                             Kind(Sh("gridshift grids=g1.datum,@null", 11, 55), "geo", "geo")}
      [] f = "deformation" -> {[Kind(Sh(t, 11, 55), "xyz", "xyz") EXCEPT !.via = "cart"] : t \in {"deformation grids=d1.deformation dt=1", "deformation grids=d1.deformation t_epoch=2019"}}
      [] f = "dm"  -> {Kind(Sh("dm", 0, 0), "iso_dm", "geo")}
      [] f = "dms" -> {Kind(Sh("dms", 0, 0), "iso_dms", "geo")}
      [] f = "unitconvert" -> {Kind(Sh("unitconvert xy_in=deg xy_out=rad", 0, 0), "lonlat_deg", "geo"),
                               Kind(Sh("unitconvert xy_in=rad xy_out=deg", 0, 0), "geo", "lonlat_deg"),
                               [Kind(Sh("unitconvert xy_in=km xy_out=m", 0, 0), "lin", "lin") EXCEPT !.unit = "1000"],
                               [Kind(Sh("unitconvert xy_in=ft xy_out=m z_in=ft z_out=m", 0, 0), "lin", "lin") EXCEPT !.unit = "0.3048"]}
      [] f = "permtide" -> {Kind(Sh("permtide from=" \o a \o " to=" \o b, 0, 0), "geo", "geo") : a \in Tides, b \in Tides}
      [] f = "geodesic" -> {Kind(Sh("geodesic reversible", 0, 0), "geodesic", "pair_deg")}
      [] f = "molodensky" -> {Kind(Sh(t, 0, 0), "geo", "geo") : t \in {"molodensky ellps_0=intl ellps_1=GRS80 dx=-87 dy=-96 dz=-120",
                                                                         "molodensky ellps_0=intl ellps_1=GRS80 dx=-87 dy=-96 dz=-120 abridged",
                                                                         "molodensky ellps_0=WGS84 ellps_1=intl dx=84.87 dy=96.49 dz=116.95"}}
      [] f = "axisswap" -> {IntKind(Sh("axisswap order=" \o o, 0, 0)) : o \in {"1,2,3,4", "2,1", "2,-1,3", "4,3,2,1", "-1,-2,-3,-4", "3,1,2", "-2,1"}}
      [] f = "adapt" -> {IntKind(Sh("adapt " \o o, 0, 0)) : o \in {"from=neuf", "from=wsdp", "to=neuf", "from=uenf to=fnue", "from=enuf_rad to=pdsw_rad", "from=neuf_deg to=enuf_deg"}}
      [] f = "adapt_angular" -> {Kind(Sh("adapt from=neuf_deg", 0, 0), "latlon_deg", "geo"), Kind(Sh("adapt to=neuf_deg", 0, 0), "geo", "latlon_deg"),
                                 Kind(Sh("adapt from=enuf_deg to=enuf_gon", 0, 0), "lonlat_deg", "lonlat_gon")}
      [] f = "addone" -> {IntKind(Sh("addone", 0, 0))}
      [] f = "noop" -> {IntKind(Sh(t, 0, 0)) : t \in {"noop", "longlat", "latlon", "latlong", "lonlat"}}

\* which families take `ellps` (all names of the table)
TakesEllps(f) == f \in {"tmerc", "utm", "btmerc", "butm", "merc", "webmerc", "lcc", "laea", "laea_np", "somerc", "omerc", "cart", "cart_high",
                        "latitude", "permtide", "geodesic"}
EllpsOf(f) == IF TakesEllps(f) THEN Ellps ELSE NoEllps
\* omerc's documented example is on evrstSS: that ellipsoid is part of the quick tier too
\* heights and distances of the lattices are metres: meaningless on the sphere of radius 1 m
EllpsFor(f) == IF f = "omerc" /\ Q THEN Ellps \cup {"evrstSS"}
               ELSE IF f \in {"cart", "cart_high", "geodesic"} THEN EllpsOf(f) \ {"unitsphere"}
               ELSE EllpsOf(f)

IntPts == IF Q THEN {<<3586526, 762340, 5201465, 2020>>, <<-2700000, -4300000, 3850000, 2000>>, <<12, 55, 100, 2020>>}
          ELSE {<<x, y, z, 2020>> : x \in {-6378137, -2700000, 0, 12, 3586526}, y \in {-4300000, 0, 55, 762340}, z \in {-6356752, 0, 100, 5201465}}
XyzPts == IF Q THEN {<<3586526, 762340, 5201465, 2020>>, <<-2700000, -4300000, 3850000, 2000>>, <<6378137, 0, 0, 2015>>, <<0, 0, -6356752, 2025>>}
          ELSE {<<x, y, z, t>> : x \in {-6378137, -2700000, 12, 3586526}, y \in {-4300000, 55, 762340}, z \in {-6356752, 100, 5201465}, t \in {2000, 2020}}
\* quarter degrees inside the harness-written grids (54..56 N, 10..12 E): integers count quarters of a degree
QuarterPts == {<<lo, la, h, 2020>> : lo \in (IF Q THEN {41, 44, 47} ELSE 41..47), la \in (IF Q THEN {217, 220, 223} ELSE 217..223), h \in {0, 100}}
\* ISO 6709: degrees and whole minutes (and seconds), both signs
IsoDm == {<<s1 * (100 * d1 + m1), s2 * (100 * d2 + m2), 10, 2020>> :
            s1 \in {1, -1}, d1 \in (IF Q THEN {0, 55} ELSE {0, 1, 55, 89}), m1 \in (IF Q THEN {0, 30} ELSE {0, 1, 30, 59}),
            s2 \in {1, -1}, d2 \in (IF Q THEN {12, 179} ELSE {0, 12, 100, 179}), m2 \in (IF Q THEN {45} ELSE {0, 45, 59})}
IsoDms == {<<s1 * (10000 * d1 + 100 * m1 + c1), s2 * (10000 * d2 + 100 * m2 + c2), 10, 2020>> :
            s1 \in {1, -1}, d1 \in (IF Q THEN {55} ELSE {0, 55, 89}), m1 \in {0, 30, 59}, c1 \in (IF Q THEN {36} ELSE {0, 36, 59}),
            s2 \in {1, -1}, d2 \in (IF Q THEN {12} ELSE {0, 12, 179}), m2 \in {45}, c2 \in {9, 59}}
\* geodesic, forward problem: origin (lat, lon), azimuth (degrees), distance (metres)
GeodPts == {<<la, lo, az, di>> : la \in (IF Q THEN {-33, 0, 55} ELSE {-80, -33, 0, 1, 55, 89}), lo \in {12, -100},
                                 az \in (IF Q THEN {0, 45, 225} ELSE {0, 45, 90, 135, 180, 225, 359}),
                                 di \in (IF Q THEN {1000, 1000000} ELSE {1, 1000, 100000, 1000000, 5000000, 10000000})}

Pts(f, s) ==
    CASE f \in {"tmerc", "utm"} -> Around(s, DLon30, Lats89, {0})
      [] f \in {"btmerc", "butm"} -> Around(s, DLon3, Lats89, {0})
      [] f = "merc" -> {p \in GeoPts(LonsGlobe, Lats89, {0}) : Abs(p[2] + s.lat0) <= 89}
      [] f \in {"webmerc", "lcc"} -> GeoPts(LonsGlobe, Lats89, {0})
      \* within 150 degrees of the centre: |dlat| + |dlon| bounds the spherical distance from above
      [] f = "laea" -> {p \in GeoPts({W(s.lon0 + d) : d \in LonsGlobe}, Lats90, {0}) : Abs(p[2] - s.lat0) + DLon(p[1], s.lon0) <= 150}
      \* p[2] = +-k stands for the latitude +-(90 - 10^-k) degrees, written 89.99d, 89.9999d, 89.999999d
      \* (within 150 degrees of the centre, as for laea: the pole opposite a polar or high-latitude centre is left out)
      [] f = "laea_np" -> {p \in {<<W(s.lon0 + d), sg * k, 0, 2020>> : d \in {-170, -20, 0, 30, 135}, sg \in {-1, 1}, k \in {2, 4, 6}} :
                              Abs((IF p[2] < 0 THEN -90 ELSE 90) - s.lat0) + DLon(p[1], s.lon0) <= 150}
      [] f = "somerc" -> {<<W(s.lon0 + a), s.lat0 + b, 400, 2020>> : a \in Near, b \in Near}
      [] f = "omerc" -> {<<W(s.lon0 + 2 * a), s.lat0 + b, 10, 2020>> : a \in Near, b \in Near}
      [] f = "cart" -> GeoPts(LonsGlobe, Lats90, HeightsLow)
      [] f = "cart_high" -> GeoPts(LonsGlobe, Lats90, HeightsHigh)
      [] f = "latitude" -> GeoPts({12}, (IF Q THEN Lats90 ELSE -90..90), {0})
      [] f \in {"helmert_translation", "axisswap", "adapt", "addone", "noop"} -> IntPts
      [] f = "helmert_exact" -> XyzPts
      [] f \in {"gridshift", "deformation"} -> QuarterPts
      [] f = "dm" -> IsoDm
      [] f = "dms" -> IsoDms
      [] f = "unitconvert" -> IF s.dk = "lin" THEN IntPts ELSE GeoPts(LonsGlobe, Lats90, {100})
      [] f = "permtide" -> GeoPts({12}, Lats90, {30})
      [] f = "geodesic" -> GeodPts
      [] f = "molodensky" -> GeoPts(LonsGlobe, {x \in Lats89 : Abs(x) <= 70}, {0, 1000})
      [] f = "adapt_angular" -> GeoPts(LonsGlobe, Lats90, {100})

\* the documented domain (quantifier of C01), as far as it is stated
InDomain(f, s, p) ==
    CASE f \in {"tmerc", "utm"}    -> DLon(p[1], s.lon0) <= 30 /\ Abs(p[2]) <= 89
      [] f \in {"btmerc", "butm"}  -> DLon(p[1], s.lon0) <= 3 /\ Abs(p[2]) <= 89
      [] f \in {"merc", "webmerc", "lcc"} -> Abs(p[1]) <= 180 /\ Abs(p[2]) <= 89 /\ (f = "merc" => Abs(p[2] + s.lat0) <= 89)
      [] f = "laea"                -> Abs(p[2] - s.lat0) + DLon(p[1], s.lon0) <= 150 /\ Abs(p[2]) <= 90
      [] f = "laea_np"             -> Abs(p[2]) \in {2, 4, 6} /\ Abs((IF p[2] < 0 THEN -90 ELSE 90) - s.lat0) + DLon(p[1], s.lon0) <= 150
      [] f = "cart"                -> Abs(p[2]) <= 90 /\ p[3] >= -10000 /\ p[3] <= 100000
      [] f = "cart_high"           -> Abs(p[2]) <= 90 /\ p[3] > 100000 /\ p[3] <= 10000000
      [] f \in {"gridshift", "deformation"} -> p[1] > 40 /\ p[1] < 48 /\ p[2] > 216 /\ p[2] < 224      \* strictly inside coverage (quarter degrees)
      [] f \in {"somerc", "omerc"} -> DLon(p[1], s.lon0) <= 6 /\ Abs(p[2] - s.lat0) <= 3
      [] f = "geodesic"            -> Abs(p[1]) <= 90 /\ p[4] <= 10000000                              \* well away from the antipode
      [] OTHER -> Abs(p[2]) <= 90 \/ s.dk \in {"int", "lin", "xyz", "iso_dm", "iso_dms", "geodesic"}

\* the text of a point, by domain kind
Quarter(i) == S(i \div 4) \o (CASE i % 4 = 0 -> "" [] i % 4 = 1 -> ".25" [] i % 4 = 2 -> ".5" [] i % 4 = 3 -> ".75")
Nines(k) == CASE k = 2 -> "99" [] k = 4 -> "9999" [] k = 6 -> "999999"
PtText(f, s, p) ==
    CASE f = "laea_np" -> <<S(p[1]) \o "d", (IF p[2] < 0 THEN "-" ELSE "") \o "89." \o Nines(Abs(p[2])) \o "d", S(p[3]), S(p[4])>>
      [] f \in {"gridshift", "deformation"} -> <<Quarter(p[1]) \o "d", Quarter(p[2]) \o "d", S(p[3]), S(p[4])>>
      [] s.dk = "geo" -> <<S(p[1]) \o "d", S(p[2]) \o "d", S(p[3]), S(p[4])>>
      [] s.dk = "latlon_deg" -> <<S(p[2]), S(p[1]), S(p[3]), S(p[4])>>
      [] OTHER -> <<S(p[1]), S(p[2]), S(p[3]), S(p[4])>>        \* lonlat_deg, int, lin, xyz, iso, geodesic: the integers themselves

DefText(f, s, e) == IF e = "" THEN s.text ELSE s.text \o " ellps=" \o e

(***************************************************************************)
(* Enumeration                                                             *)
(***************************************************************************)
CONSTANT Fams          \* the families explored by this instance
FamsC == TLCEval(Fams)
VARIABLES fam, shp, el, pt, ord
vars == <<fam, shp, el, pt, ord>>
NoPt == <<>>

Init == /\ fam \in FamsC /\ shp \in Shapes(fam) /\ el \in EllpsFor(fam) /\ pt = NoPt /\ ord = "-"
\* one round trip: a point of the lattice, forward-then-inverse or inverse-then-forward from the forward image
Pick == /\ pt = NoPt
        /\ \E p \in Pts(fam, shp), o \in {"FI", "IF"} : pt' = p /\ ord' = o
        /\ UNCHANGED <<fam, shp, el>>
Next == Pick
Spec == Init /\ [][Next]_vars

\* every enumerated point lies inside the documented domain
DomainInv == pt # NoPt => InDomain(fam, shp, pt)
\* every family has a class of the statement, and a non-empty lattice
ClassInv == /\ fam \in Families /\ Tol(Class(fam)) \in {0, 10, 1000, 20000}
            /\ Pts(fam, shp) # {}
            /\ (Class(fam) = "exact") <=> (shp.dk = "int")
\* every family of the catalogue is explored by some instance (checked once)
ASSUME FamsC \subseteq Families

Emit == pt = NoPt =>
    PrintT(<<"RT", ToJson([fam |-> fam, def |-> DefText(fam, shp, el), shape |-> shp.text, ellps |-> el, ctx |-> Ctx(fam),
                            cls |-> Class(fam), tol_um |-> Tol(Class(fam)), dk |-> shp.dk, ik |-> shp.ik, unit |-> shp.unit, via |-> shp.via,
                            pts |-> {PtText(fam, shp, p) : p \in Pts(fam, shp)}])>>)
=============================================================================
