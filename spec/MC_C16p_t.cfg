SPECIFICATION PSpec
CONSTANTS
  NaN = NaN
  PGamut <- TGamut
  PDefs <- DefsThorough
  POpName = "t_gamut"
INVARIANTS AgreesWithReference LastWins UnknownIgnored TextDeterminesValue EmitP
CHECK_DEADLOCK FALSE
