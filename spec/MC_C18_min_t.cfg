SPECIFICATION Spec
CONSTANTS
  Ctxs <- C2
  MaxLen = 5
  WithGrids = FALSE
VIEW view
INVARIANTS UniqueHandles ObjInv
ACTION_CONSTRAINT EmitEdge
PROPERTY Immutable
CHECK_DEADLOCK FALSE
