SPECIFICATION Spec
CONSTANTS
  Kinds = {"op", "opinv", "oneway", "stack"}
  Omits = {"none", "of"}
  Ns = {1}
  QLens = {0, 2}
INVARIANTS RTypeOK OrderInv CountInv HonestInv NestInv EndInv DirInv PlanInv
CHECK_DEADLOCK TRUE
