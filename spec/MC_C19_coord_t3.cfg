SPECIFICATION Spec
CONSTANTS
  NaN = NaN
  PInf = PInf
  NInf = NInf
  NZero = NZero
  Fine = Fine
  Huge = Huge
  Tiny = Tiny
  Modes <- ModesST
  SetKinds <- KindsAll
  TupKinds <- TKindsAll
  N = 2
  MaxOps = 3
  SetValues <- SetVals2
  TupValues <- TupVals1
  ArithCases <- NoArith
INVARIANTS TypeOK SetRefInv SetRoundTripInv SetMissingInv SetFrameInv StompInv TupRefInv TupRangeInv TupRoundTripInv ArithInv Emit
CHECK_DEADLOCK FALSE
