----------------------------- MODULE Catalogue -----------------------------
(***************************************************************************)
(* C10 (and the operator catalogue of C01).                                *)
(*                                                                         *)
(* One row per built-in operator *parameterisation under test*: its        *)
(* definition text and, per direction, the coordinate elements it reads    *)
(* and writes, which output depends on which input, whether it DECLARES a  *)
(* domain limit, the kind of tuple it takes and delivers, and              *)
(* representative points inside the documented domain, at its edge, far    *)
(* outside it, and outside grid coverage in the presence of a null grid.   *)
(*                                                                         *)
(* On top of the table the module gives the *abstract semantics* of        *)
(* failure signalling, exactly as property C10 states it:                  *)
(*                                                                         *)
(*   element status   same  bit-identical to the input element             *)
(*                    new   not NaN (the value is the operator's business) *)
(*                    val   (pipelines) not NaN                            *)
(*                    nan   NaN                                            *)
(*                    any   not specified                                  *)
(*   tuple            counted / not counted; "carries NaN somewhere" (sn)  *)
(*                                                                         *)
(* An application of one operator to one tuple has a SET of admissible     *)
(* outcomes (Outcomes); a pipeline composes the abstract transformers of   *)
(* its executed steps (PipeRun) and reports the minimum of the step        *)
(* counts.  Which elements carry the NaN of a failed tuple is deliberately *)
(* left open ("any" + sn).                                                 *)
(*                                                                         *)
(* Coordinates are decimal strings (TLC has no reals); a trailing `d`      *)
(* means degrees.  Elements are numbered 1..4.                             *)
(***************************************************************************)
EXTENDS Integers, Sequences, FiniteSets, TLC, Json

E == 1..4
Masks == SUBSET E

\* ---- dependency shapes: dep[o] = the input elements output element o depends on
DAll(S) == [o \in E |-> S]
DDiag   == [o \in E |-> {o}]
DNone   == [o \in E |-> {}]
D4(a, b, c, d) == <<a, b, c, d>>

\* ---- one direction of one row -------------------------------------------------
\* rd, wr   elements read / written (everything else must come back bit-identical)
\* dep      see above (only dep[o] for o \in wr matters)
\* lim      the operator declares a domain limit in this direction
\* kin/kout kind of tuple taken / delivered: geo (lon lat in radians, h, t), prj (E N h t),
\*          xyz, neu (lat lon in degrees), edeg (lon lat in degrees), iso, and dead-end kinds;
\*          "any": works on whatever comes and keeps its kind
\* mv       at the inside points the operator really changes the tuple
\* ins/out/edge/nul   representative points: inside the documented domain / far outside a
\*          declared limit / at the limit / outside grid coverage with a null grid
\* cor      corners of the VALUE space (finite numbers): points where the formulas degenerate (a pole, the
\*          antipode of the centre, the image of a pole, a latitude beyond the pole, a height at the centre of
\*          curvature, the largest finite number).  Whether such a tuple "can be transformed" is the operator's
\*          business; what the statement fixes is the dichotomy: transformed (numbers) and counted, or NaN and
\*          not counted.  No declared limit is needed for that.
\* Two more classes are DERIVED from the first inside point (InfPts, UntPts below): an infinite value in an
\* element that is read (rows with a declared limit only) and an infinite value or a negative zero in an element
\* the operator does not work on (every row).
Base == [rd |-> {}, wr |-> {}, dep |-> DNone, lim |-> FALSE, kin |-> "any", kout |-> "any", mv |-> FALSE,
         ins |-> <<>>, out |-> <<>>, edge |-> <<>>, nul |-> <<>>, cor |-> <<>>, stk |-> "", k |-> 0]
NoDir == [Base EXCEPT !.kin = "none", !.kout = "none"]

PlaneF == [Base EXCEPT !.rd = {1, 2}, !.wr = {1, 2}, !.dep = DAll({1, 2}), !.kin = "geo", !.kout = "prj", !.mv = TRUE]
PlaneI == [PlaneF EXCEPT !.kin = "prj", !.kout = "geo"]
SpaceF == [Base EXCEPT !.rd = {1, 2, 3}, !.wr = {1, 2, 3}, !.dep = DAll({1, 2, 3}), !.kin = "xyz", !.kout = "xyz", !.mv = TRUE]

\* ---- points ---------------------------------------------------------------------
PGeo    == <<"12d", "55d", "100", "2020.5">>
PGeoS   == <<"20d", "-33d", "50", "2015.25">>
PGeoW   == <<"-1d", "52d", "30", "2019">>
PSwiss  == <<"8d", "47d", "400", "2021">>
PBorneo == <<"115.8d", "5.39d", "10", "2000">>
PGrid   == <<"11d", "55d", "10", "2020">>          \* inside the harness-written grids (54..56 N, 10..12 E)
PFar    == <<"30d", "20d", "10", "2020">>          \* far outside them
PNPole  == <<"0d", "90d", "0", "2020">>
\* geocentric cartesian
XGeoIntl == <<"3586701.0962", "762376.8528", "5201571.5773", "2020.5">>   \* PGeo on intl
XGeo     == <<"3586525.7611", "762339.5841", "5201465.4383", "2020.5">>   \* PGeo on GRS80
XAxis    == <<"0", "0", "6356911.946", "2020">>                            \* on the Z axis (intl pole)
XGrid    == <<"3599227.8723", "699619.0265", "5201383.5231", "2020">>      \* PGrid (h=0) on GRS80
XFar     == <<"5192546.6254", "2997918.1920", "2167696.7878", "2020">>     \* PFar  (h=0) on GRS80
\* human lookup operators: latitude, longitude in degrees
HDeg     == <<"55", "12", "100", "2020.5">>
HGrid    == <<"55", "11", "0", "2020">>
HFar     == <<"20", "30", "0", "2020">>
\* corners of the value space
HugeLat  == <<"0.2", "1.7976931348623157e308", "0", "2020">>          \* the largest finite number as a latitude
HugeE    == <<"1.7976931348623157e308", "6096400.0", "0", "2020">>    \* ... as an easting, as a northing
HugeN    == <<"595970.0", "1.7976931348623157e308", "0", "2020">>
PolesAt(lon) == << <<lon, "90d", "10", "2000">>, <<lon, "-90d", "10", "2000">>, <<lon, "91d", "10", "2000">> >>   \* both poles, a degree beyond
MoloCentres == << <<"12d", "55d", "-6378620.226895029", "2020">>, <<"12d", "55d", "-6392823.244313335", "2020">> >>   \* h = -M(55), -N(55) on intl

\* ---- the table -------------------------------------------------------------------
Inv(id, def, F, I) == [id |-> id, def |-> def, ctx |-> "minimal", inv |-> TRUE, ident |-> FALSE, single |-> TRUE, F |-> F, I |-> I]
One(id, def, F)    == [id |-> id, def |-> def, ctx |-> "minimal", inv |-> FALSE, ident |-> FALSE, single |-> TRUE, F |-> F, I |-> NoDir]
Plain(r)  == [r EXCEPT !.ctx = "plain"]
Ident(r)  == [r EXCEPT !.ident = TRUE]
StackRow(id, def, what, k, els) ==
    [id |-> id, def |-> def, ctx |-> "minimal", inv |-> TRUE, ident |-> FALSE, single |-> FALSE,
     F |-> [Base EXCEPT !.stk = what, !.k = k, !.wr = IF what \in {"pop", "flip"} THEN els ELSE {}],
     I |-> [Base EXCEPT !.stk = (CASE what = "push" -> "pop" [] what = "pop" -> "push" [] OTHER -> what), !.k = k,
                        !.wr = IF what \in {"push", "flip"} THEN els ELSE {}]]

\* plane projections --------------------------------------------------------------
TmercRows == <<
  Inv("tmerc", "tmerc lon_0=9 k_0=0.9996 x_0=500000",
      [PlaneF EXCEPT !.lim = TRUE, !.ins = <<PGeo>>, !.out = << <<"98d", "0d", "0", "2020">> >>, !.edge = << <<"90.7d", "0d", "0", "2020">> >>,
                     !.cor = <<HugeLat, <<"9d", "90d", "0", "2020">>, <<"9d", "-90d", "0", "2020">> >>],
      [PlaneI EXCEPT !.lim = TRUE, !.ins = << <<"691875.632", "6098907.825", "100", "2020.5">> >>,
                     !.out = << <<"25000000", "6000000", "0", "2020">> >>, !.edge = << <<"17190000", "0", "0", "2020">> >>, !.cor = <<HugeE, HugeN>>]),
  Inv("tmerc_lat0", "tmerc lat_0=49 lon_0=-2 k_0=0.9996012717 x_0=400000 y_0=-100000 ellps=airy",
      [PlaneF EXCEPT !.lim = TRUE, !.ins = <<PGeoW>>, !.out = << <<"87d", "0d", "0", "2020">> >>],
      [PlaneI EXCEPT !.lim = TRUE, !.ins = << <<"468653.0", "233681.0", "30", "2019">> >>, !.out = << <<"-24000000", "100000", "0", "2020">> >>]),
  Inv("utm_n", "utm zone=32",
      [PlaneF EXCEPT !.lim = TRUE, !.ins = <<PGeo>>, !.out = << <<"98.5d", "1d", "0", "2020">> >>, !.cor = <<HugeLat>>],
      [PlaneI EXCEPT !.lim = TRUE, !.ins = << <<"691875.632", "6098907.825", "100", "2020.5">> >>, !.out = << <<"30000000", "1000000", "0", "2020">> >>]),
  Inv("utm_s", "utm zone=32 south",
      [PlaneF EXCEPT !.lim = TRUE, !.ins = <<PGeoS>>, !.out = << <<"-80d", "-2d", "0", "2020">> >>],
      [PlaneI EXCEPT !.lim = TRUE, !.ins = << <<"1530148.162", "6294449.746", "50", "2015.25">> >>, !.out = << <<"-20000000", "9000000", "0", "2020">> >>]),
  \* a quarter of a turn off the central meridian, on the equator: the easting is infinite (see "numbers" below)
  Inv("btmerc", "btmerc lon_0=9 k_0=0.9996 x_0=500000",
      [PlaneF EXCEPT !.ins = << <<"10.5d", "55d", "100", "2020.5">> >>, !.cor = << <<"99d", "0d", "0", "2020">>, <<"-81d", "0d", "0", "2020">>, HugeLat >>],
      [PlaneI EXCEPT !.ins = << <<"595970.0", "6096400.0", "100", "2020.5">> >>, !.cor = <<HugeE, HugeN>>]),
  Inv("butm_n", "butm zone=32",
      [PlaneF EXCEPT !.ins = << <<"10.5d", "55d", "100", "2020.5">> >>],
      [PlaneI EXCEPT !.ins = << <<"595970.0", "6096400.0", "100", "2020.5">> >>]),
  Inv("butm_s", "butm zone=32 south",
      [PlaneF EXCEPT !.ins = << <<"10d", "-33d", "50", "2015.25">> >>],
      [PlaneI EXCEPT !.ins = << <<"593420.0", "6348000.0", "50", "2015.25">> >>])
>>

CylRows == <<
  Inv("merc", "merc",
      [PlaneF EXCEPT !.dep = DDiag, !.ins = <<PGeo, PGeoS>>, !.cor = PolesAt("12d")],
      [PlaneI EXCEPT !.dep = DDiag, !.ins = << <<"1335833.890", "7326837.715", "100", "2020.5">> >>]),
  Inv("merc_ts", "merc lat_ts=56",
      [PlaneF EXCEPT !.dep = DDiag, !.ins = <<PGeo>>],
      [PlaneI EXCEPT !.dep = DDiag, !.ins = << <<"748713.258", "4106573.863", "100", "2020.5">> >>]),
  Inv("webmerc", "webmerc",
      [PlaneF EXCEPT !.dep = DDiag, !.ins = <<PGeo>>, !.cor = PolesAt("12d")],
      [PlaneI EXCEPT !.dep = DDiag, !.ins = << <<"1335833.890", "7361866.113", "100", "2020.5">> >>]),
  Inv("omerc_a", "omerc lonc=115 latc=4 alpha=53:18:56.9537 gamma_c=53:07:48.3685 k_0=0.99984 ellps=evrstSS",
      [PlaneF EXCEPT !.ins = <<PBorneo>>, !.cor = PolesAt("115.8d")],
      \* the image of the south pole; a point a million kilometres away
      [PlaneI EXCEPT !.ins = << <<"678634.418", "596863.847", "10", "2000">> >>,
                     !.cor = << <<"-3797090.65608871", "-11575311.901500694", "10", "2000">>, <<"1e12", "596863.8", "10", "2000">> >>]),
  Inv("omerc_b", "omerc lonc=115 latc=4 alpha=53:18:56.9537 gamma_c=53:07:48.3685 k_0=0.99984 x_0=590476.87 y_0=442857.65 ellps=evrstSS variant",
      [PlaneF EXCEPT !.ins = <<PBorneo>>, !.cor = PolesAt("115.8d")],
      [PlaneI EXCEPT !.ins = << <<"678634.412", "596863.841", "10", "2000">> >>,
                     !.cor = << <<"-3797090.6614355883", "-11575311.907898858", "10", "2000">>, <<"1e12", "596863.8", "10", "2000">> >>]),
  \* the inverse signals non-convergence of its iteration: a declared limit without a representative point
  Inv("somerc", "somerc lat_0=46.9524055555556 lon_0=7.43958333333333 k_0=1 x_0=2600000 y_0=1200000 ellps=bessel",
      [PlaneF EXCEPT !.ins = <<PSwiss>>, !.cor = PolesAt("8d") \o << <<"8d", "89.999999999d", "0", "2020">> >>],
      \* the image of (8 E, 89.999999999 N)
      [PlaneI EXCEPT !.lim = TRUE, !.ins = << <<"2642600.0", "1205500.0", "400", "2021">> >>,
                     !.cor = << <<"2600000.00000147", "6526593.536164563", "0", "2020">> >> ]),
  \* every parameter at its default: centred on (0, 0)
  Inv("somerc_eq", "somerc",
      [PlaneF EXCEPT !.ins = << <<"1d", "2d", "0", "2020">> >>, !.cor = PolesAt("1d") \o << <<"1d", "89.999999999d", "0", "2020">> >>],
      [PlaneI EXCEPT !.lim = TRUE, !.ins = << <<"111319.491", "221194.077", "0", "2020">> >>])
>>

ConicRows == <<
  \* forward: the pole opposite to the cone is at infinity; the pole at the apex of the cone is an ordinary point of the
  \* domain, whatever the cone constant (n = 0.84, 0.63, -0.63: a test on lat * n would tell the cones apart);
  \* inverse: signals non-convergence (no representative point)
  Inv("lcc_1sp", "lcc lat_1=57 lon_0=10",
      [PlaneF EXCEPT !.lim = TRUE, !.ins = <<PGeo, PNPole>>, !.out = << <<"12d", "-90d", "0", "2020">> >>, !.cor = << <<"12d", "91d", "0", "2020">> >>],
      [PlaneI EXCEPT !.lim = TRUE, !.ins = << <<"127900.0", "-221000.0", "100", "2020.5">> >>]),
  Inv("lcc_2sp", "lcc lat_1=33 lat_2=45 lon_0=10",
      [PlaneF EXCEPT !.lim = TRUE, !.ins = <<PGeo, PNPole>>, !.out = << <<"12d", "-90d", "0", "2020">> >>, !.cor = << <<"12d", "91d", "0", "2020">>, <<"12d", "90d", "0", "2020">> >>],
      [PlaneI EXCEPT !.lim = TRUE, !.ins = << <<"132822.092", "6418684.236", "100", "2020.5">> >>]),
  Inv("lcc_south", "lcc lat_1=-33 lat_2=-45 lon_0=20",
      [PlaneF EXCEPT !.lim = TRUE, !.ins = << <<"22d", "-33d", "50", "2015.25">>, <<"12d", "-90d", "0", "2020">> >>, !.out = << <<"12d", "90d", "0", "2020">> >>, !.cor = << <<"12d", "-91d", "0", "2020">>, <<"12d", "-90d", "0", "2020">> >>],
      [PlaneI EXCEPT !.lim = TRUE, !.ins = << <<"180000.0", "-3960000.0", "50", "2015.25">> >>])
>>

\* laea: the inverse is defined on a disc (radius 2 Rq, about 12742 km) around the centre
LaeaRows == <<
  Inv("laea_oblique", "laea lat_0=52 lon_0=10 x_0=4321000 y_0=3210000",
      [PlaneF EXCEPT !.ins = <<PGeo>>, !.cor = << <<"-170d", "-52d", "0", "2020">>, <<"-170d", "-52.000000001d", "0", "2020">> >>],
      [PlaneI EXCEPT !.lim = TRUE, !.ins = << <<"4449020.354", "3545613.591", "100", "2020.5">>, <<"4321000", "3210000", "0", "2020">> >>,
                     !.out = << <<"24321000", "3210000", "0", "2020">> >>, !.edge = << <<"17063014", "3210000", "0", "2020">> >>]),
  Inv("laea_equatorial", "laea lon_0=10",
      [PlaneF EXCEPT !.ins = << <<"12d", "5d", "100", "2020.5">> >>, !.cor = << <<"-170d", "0d", "0", "2020">>, <<"-170d", "0.000000001d", "0", "2020">> >>],
      [PlaneI EXCEPT !.lim = TRUE, !.ins = << <<"222000.0", "553000.0", "100", "2020.5">> >>, !.out = << <<"20000000", "1000", "0", "2020">> >>]),
  Inv("laea_north", "laea lat_0=90 lon_0=10",
      [PlaneF EXCEPT !.ins = <<PGeo>>, !.cor = << <<"12d", "-90d", "0", "2020">> >>],
      [PlaneI EXCEPT !.lim = TRUE, !.ins = << <<"134167.242", "-3842047.127", "100", "2020.5">> >>, !.out = << <<"20000000", "1000", "0", "2020">> >>]),
  Inv("laea_south", "laea lat_0=-90 lon_0=10",
      [PlaneF EXCEPT !.ins = <<PGeoS>>, !.cor = << <<"12d", "90d", "0", "2020">> >>],
      [PlaneI EXCEPT !.lim = TRUE, !.ins = << <<"1010000.0", "5730000.0", "50", "2015.25">> >>, !.out = << <<"20000000", "1000", "0", "2020">> >>])
>>

\* 3D conversions and datum shifts -----------------------------------------------
CartF == [SpaceF EXCEPT !.kin = "geo", !.dep = D4({1, 2, 3}, {1, 2, 3}, {2, 3}, {})]
CartI == [SpaceF EXCEPT !.kout = "geo", !.dep = D4({1, 2}, {1, 2, 3}, {1, 2, 3}, {})]
HelmDiag == [SpaceF EXCEPT !.dep = DDiag]
HelmDyn  == [SpaceF EXCEPT !.rd = E, !.dep = DAll(E)]
SpaceRows == <<
  Inv("cart_intl", "cart ellps=intl", [CartF EXCEPT !.ins = <<PGeo, PNPole>>], [CartI EXCEPT !.ins = <<XGeoIntl, XAxis>>, !.cor = << <<"0", "0", "0", "2020">> >>]),
  Inv("cart", "cart", [CartF EXCEPT !.ins = <<PGeoS>>], [CartI EXCEPT !.ins = <<XGeo>>]),
  Inv("helmert_translation", "helmert x=-87 y=-96 z=-120", [HelmDiag EXCEPT !.ins = <<XGeo>>], [HelmDiag EXCEPT !.ins = <<XGeo>>]),
  Inv("helmert_7", "helmert convention=position_vector x=0.06155 rx=-0.0394924 y=-0.01087 ry=-0.0327221 z=-0.04019 rz=-0.0328979 s=-0.009994",
      [SpaceF EXCEPT !.ins = <<XGeo>>], [SpaceF EXCEPT !.ins = <<XGeo>>]),
  Inv("helmert_exact", "helmert convention=coordinate_frame exact x=10 y=20 z=30 rx=1 ry=2 rz=3 s=1.5",
      [SpaceF EXCEPT !.ins = <<XGeo>>], [SpaceF EXCEPT !.ins = <<XGeo>>]),
  \* time dependent: the epoch (element 4) is read
  Inv("helmert_rates", "helmert x=1 y=2 z=3 dx=0.1 dy=0.2 dz=0.3 t_epoch=2010",
      [HelmDyn EXCEPT !.dep = D4({1, 4}, {2, 4}, {3, 4}, {}), !.ins = <<XGeo>>], [HelmDyn EXCEPT !.dep = D4({1, 4}, {2, 4}, {3, 4}, {}), !.ins = <<XGeo>>]),
  Inv("helmert_14", "helmert convention=position_vector x=0.06155 rx=-0.0394924 y=-0.01087 ry=-0.0327221 z=-0.04019 rz=-0.0328979 s=-0.009994 dx=-0.0001 drx=-0.0001 dy=0.0002 dry=0.0002 dz=0.0003 drz=-0.0003 ds=0.0001 t_epoch=2010",
      [HelmDyn EXCEPT !.ins = <<XGeo>>], [HelmDyn EXCEPT !.ins = <<XGeo>>]),
  \* a fixed observation epoch: element 4 is ignored
  Inv("helmert_tobs", "helmert x=1 y=2 z=3 dx=0.1 dy=0.2 dz=0.3 t_epoch=2010 t_obs=2015",
      [HelmDiag EXCEPT !.ins = <<XGeo>>], [HelmDiag EXCEPT !.ins = <<XGeo>>]),
  Inv("molodensky", "molodensky ellps_0=intl ellps_1=GRS80 dx=-87 dy=-96 dz=-120",
      [SpaceF EXCEPT !.kin = "geo", !.kout = "geo", !.ins = <<PGeo>>, !.cor = MoloCentres], [SpaceF EXCEPT !.kin = "geo", !.kout = "geo", !.ins = <<PGeo>>, !.cor = MoloCentres]),
  Inv("molodensky_abridged", "molodensky ellps_0=intl ellps_1=GRS80 dx=-87 dy=-96 dz=-120 abridged",
      [SpaceF EXCEPT !.kin = "geo", !.kout = "geo", !.dep = D4({1, 2}, {1, 2}, {1, 2, 3}, {}), !.ins = <<PGeo>>, !.cor = MoloCentres],
      [SpaceF EXCEPT !.kin = "geo", !.kout = "geo", !.dep = D4({1, 2}, {1, 2}, {1, 2, 3}, {}), !.ins = <<PGeo>>, !.cor = MoloCentres])
>>

\* grid based operators (Plain, grids written by the harness) ---------------------
\* the rim of the half-cell margin (53.5..56.5 N, 9.5..12.5 E), a third of an arc second inside it on each
\* side: the first look-up succeeds, the inverse iteration may then wander off the grid (the shifts
\* are arc seconds) - whatever happens there, the tuple is counted or it is NaN
GridRim == << <<"11d", "53.5001d", "10", "2020">>, <<"11d", "56.4999d", "10", "2020">>,
              <<"9.5001d", "55d", "10", "2020">>, <<"12.4999d", "55d", "10", "2020">>,
              <<"12.4999d", "53.5001d", "10", "2020">>, <<"9.5001d", "56.4999d", "10", "2020">> >>
GridF  == [PlaneF EXCEPT !.kout = "geo", !.lim = TRUE, !.ins = <<PGrid>>, !.out = <<PFar>>, !.edge = GridRim]
GeoidF == [GridF EXCEPT !.rd = {1, 2, 3}, !.wr = {3}, !.dep = D4({}, {}, {1, 2, 3}, {})]
DefoF  == [SpaceF EXCEPT !.lim = TRUE, !.ins = <<XGrid>>, !.out = <<XFar>>]
Nul(d) == [d EXCEPT !.nul = d.out, !.out = <<>>]
GridRows == <<
  Plain(Inv("gridshift_datum", "gridshift grids=g1.datum", GridF, GridF)),
  Plain(Inv("gridshift_datum_null", "gridshift grids=g1.datum,@null", Nul(GridF), Nul(GridF))),
  Plain(Inv("gridshift_optional", "gridshift grids=@missing.datum,g1.datum", GridF, GridF)),
  Plain(Inv("gridshift_geoid", "gridshift grids=h1.geoid", GeoidF, GeoidF)),
  Plain(Inv("gridshift_geoid_null", "gridshift grids=h1.geoid,@null", Nul(GeoidF), Nul(GeoidF))),
  Plain(Inv("deformation_epoch", "deformation grids=d1.deformation t_epoch=2000",
            [DefoF EXCEPT !.rd = E, !.dep = DAll(E)], [DefoF EXCEPT !.rd = E, !.dep = DAll(E)])),
  Plain(Inv("deformation_dt", "deformation grids=d1.deformation dt=10", DefoF, DefoF)),
  Plain(Inv("deformation_null", "deformation grids=d1.deformation,@null dt=10", Nul(DefoF), Nul(DefoF))),
  Plain(Inv("deformation_raw", "deformation raw grids=d1.deformation dt=10",
            [DefoF EXCEPT !.wr = E, !.kout = "raw"], [DefoF EXCEPT !.wr = E, !.kout = "raw"])),
  Plain(One("deflection", "deflection grids=h1.geoid",
            [PlaneF EXCEPT !.kin = "neu", !.kout = "defl", !.lim = TRUE, !.ins = <<HGrid>>, !.out = <<HFar>>])),
  Plain(One("deflection_null", "deflection grids=h1.geoid,@null",
            [PlaneF EXCEPT !.kin = "neu", !.kout = "defl", !.lim = TRUE, !.ins = <<HGrid>>, !.nul = <<HFar>>]))
>>

\* reordering, scaling, encodings -------------------------------------------------
Swap12 == [PlaneF EXCEPT !.dep = D4({2}, {1}, {}, {})]
ConvRows == <<
  Inv("adapt_from", "adapt from=neuf_deg", [Swap12 EXCEPT !.kin = "neu", !.kout = "geo", !.ins = <<HDeg>>], [Swap12 EXCEPT !.kin = "geo", !.kout = "neu", !.ins = <<PGeo>>]),
  Inv("adapt_to", "adapt to=neuf_deg", [Swap12 EXCEPT !.kin = "geo", !.kout = "neu", !.ins = <<PGeo>>], [Swap12 EXCEPT !.kin = "neu", !.kout = "geo", !.ins = <<HDeg>>]),
  Inv("adapt_full", "adapt from=wsdp to=enuf_gon",
      [Base EXCEPT !.rd = E, !.wr = E, !.dep = DDiag, !.kin = "wsdp", !.kout = "gon", !.mv = TRUE, !.ins = <<PGeo>>],
      [Base EXCEPT !.rd = E, !.wr = E, !.dep = DDiag, !.kin = "gon", !.kout = "wsdp", !.mv = TRUE, !.ins = <<PGeo>>]),
  Ident(Inv("adapt_pass", "adapt from=enuf", [Base EXCEPT !.ins = <<PGeo>>], [Base EXCEPT !.ins = <<PGeo>>])),
  Inv("axisswap_3", "axisswap order=2,-1,3",
      [Base EXCEPT !.rd = {1, 2, 3}, !.wr = {1, 2, 3}, !.dep = D4({2}, {1}, {3}, {}), !.kin = "geo", !.kout = "swp", !.mv = TRUE, !.ins = <<PGeo>>],
      [Base EXCEPT !.rd = {1, 2, 3}, !.wr = {1, 2, 3}, !.dep = D4({2}, {1}, {3}, {}), !.kin = "swp", !.kout = "geo", !.mv = TRUE, !.ins = <<PGeo>>]),
  Inv("axisswap_2", "axisswap order=2,1",
      [Swap12 EXCEPT !.kout = "swp", !.ins = <<PGeo>>], [Swap12 EXCEPT !.kin = "swp", !.kout = "geo", !.ins = <<PGeo>>]),
  Inv("unitconvert_xy", "unitconvert xy_in=deg xy_out=rad",
      [PlaneF EXCEPT !.dep = DDiag, !.kin = "edeg", !.kout = "geo", !.ins = << <<"12", "55", "100", "2020.5">> >>],
      [PlaneF EXCEPT !.dep = DDiag, !.kin = "geo", !.kout = "edeg", !.ins = <<PGeo>>]),
  Inv("unitconvert_z", "unitconvert z_in=ft z_out=m",
      [Base EXCEPT !.rd = {3}, !.wr = {3}, !.dep = DDiag, !.mv = TRUE, !.ins = <<PGeo>>], [Base EXCEPT !.rd = {3}, !.wr = {3}, !.dep = DDiag, !.mv = TRUE, !.ins = <<PGeo>>]),
  Inv("addone", "addone",
      [Base EXCEPT !.rd = {1}, !.wr = {1}, !.dep = DDiag, !.mv = TRUE, !.ins = <<PGeo>>], [Base EXCEPT !.rd = {1}, !.wr = {1}, !.dep = DDiag, !.mv = TRUE, !.ins = <<PGeo>>]),
  Ident(Inv("noop", "noop", [Base EXCEPT !.ins = <<PGeo>>], [Base EXCEPT !.ins = <<PGeo>>])),
  Ident(Inv("longlat", "longlat", [Base EXCEPT !.ins = <<PGeo>>], [Base EXCEPT !.ins = <<PGeo>>])),
  Ident(Inv("latlon", "latlon", [Base EXCEPT !.ins = <<PGeo>>], [Base EXCEPT !.ins = <<PGeo>>])),
  Ident(Inv("latlong", "latlong", [Base EXCEPT !.ins = <<PGeo>>], [Base EXCEPT !.ins = <<PGeo>>])),
  Ident(Inv("lonlat", "lonlat", [Base EXCEPT !.ins = <<PGeo>>], [Base EXCEPT !.ins = <<PGeo>>])),
  Inv("dm", "dm", [Swap12 EXCEPT !.kin = "iso", !.kout = "geo", !.ins = << <<"5530.15", "-1245.15", "10", "2020">> >>],
                  [Swap12 EXCEPT !.kin = "geo", !.kout = "iso", !.ins = <<PGeo>>]),
  Inv("dms", "dms", [Swap12 EXCEPT !.kin = "iso", !.kout = "geo", !.ins = << <<"553036.0", "-124509.0", "10", "2020">> >>],
                    [Swap12 EXCEPT !.kin = "geo", !.kout = "iso", !.ins = <<PGeo>>])
>>

\* auxiliary latitudes, tides -----------------------------------------------------
LatD == [Base EXCEPT !.rd = {2}, !.wr = {2}, !.dep = DDiag, !.kin = "geo", !.kout = "aux", !.mv = TRUE, !.ins = <<PGeo>>]
LatRow(flag) == Inv("latitude_" \o flag, "latitude " \o flag, LatD, [LatD EXCEPT !.kin = "aux", !.kout = "geo"])
TideD == [Base EXCEPT !.rd = {2, 3}, !.wr = {3}, !.dep = D4({}, {}, {2, 3}, {}), !.kin = "geo", !.kout = "geo", !.mv = TRUE, !.ins = <<PGeo>>]
LatRows == <<
  LatRow("geocentric"), LatRow("reduced"), LatRow("parametric"), LatRow("conformal"), LatRow("authalic"), LatRow("rectifying"),
  Inv("permtide", "permtide from=mean to=zero", TideD, TideD),
  Inv("permtide_free", "permtide from=free to=mean k=0.3 ellps=intl", TideD, TideD)
>>

\* one-way "human lookup" operators: latitude (and longitude, azimuth, height) in degrees / metres
CurvD == [Base EXCEPT !.rd = {1}, !.wr = {1}, !.dep = DDiag, !.kin = "neu", !.kout = "curv", !.mv = TRUE, !.ins = <<HDeg>>]
GravD == [Base EXCEPT !.rd = {1, 2}, !.wr = {1}, !.dep = D4({1, 2}, {}, {}, {}), !.kin = "lath", !.kout = "grav", !.mv = TRUE,
                      !.ins = << <<"55", "100", "7", "2020.5">> >>]
LookupRows == <<
  One("curvature_prime", "curvature prime", CurvD), One("curvature_meridian", "curvature meridian ellps=intl", CurvD),
  One("curvature_gaussian", "curvature gaussian", CurvD), One("curvature_mean", "curvature mean", CurvD),
  One("curvature_azimuthal", "curvature azimuthal", [CurvD EXCEPT !.rd = {1, 2}, !.wr = {1, 2}, !.dep = D4({1, 2}, {2}, {}, {}), !.ins = << <<"55", "30", "100", "2020.5">> >>]),
  One("gravity_grs80", "gravity grs80", GravD), One("gravity_grs67", "gravity grs67", GravD), One("gravity_welmec", "gravity welmec", GravD),
  One("gravity_jeffreys", "gravity jeffreys", GravD), One("gravity_cassinis", "gravity cassinis", GravD),
  One("gravity_zero", "gravity grs80 zero-height", [GravD EXCEPT !.rd = {1}, !.dep = DDiag]),
  \* geodesic: forward reads origin (lat lon), azimuth, distance (the latitude of the destination does not depend
  \* on the longitude of the origin) and returns the origin in elements 3, 4; inverse reads two points; Vincenty's
  \* iteration does not converge for nearly antipodal points, which the operator signals
  Inv("geodesic", "geodesic",
      [Base EXCEPT !.rd = E, !.wr = E, !.dep = D4({1, 3, 4}, E, {1}, {2}), !.lim = TRUE, !.kin = "geod1", !.kout = "geod2", !.mv = TRUE,
                   !.ins = << <<"55", "12", "225", "956066">> >>],
      [Base EXCEPT !.rd = E, !.wr = E, !.dep = DAll(E), !.lim = TRUE, !.kin = "geod3", !.kout = "geod4", !.mv = TRUE,
                   !.ins = << <<"55", "12", "49", "2">> >>, !.edge = << <<"0", "0", "0.5", "179.7">> >>]),
  Inv("geodesic_reversible", "geodesic reversible",
      [Base EXCEPT !.rd = E, !.wr = E, !.dep = D4({1, 3, 4}, E, {1}, {2}), !.lim = TRUE, !.kin = "geod1", !.kout = "geod3", !.mv = TRUE,
                   !.ins = << <<"55", "12", "225", "956066">> >>],
      [Base EXCEPT !.rd = E, !.wr = E, !.dep = D4({3}, {4}, E, E), !.lim = TRUE, !.kin = "geod3", !.kout = "geod1", !.mv = TRUE,
                   !.ins = << <<"55", "12", "49", "2">> >>, !.edge = << <<"0", "0", "0.5", "179.7">> >>])
>>

\* stack handling: only meaningful inside pipelines ------------------------------
StackRows == <<
  StackRow("stack_push12", "stack push=1,2", "push", 2, {1, 2}),
  StackRow("stack_pop12", "stack pop=1,2", "pop", 2, {1, 2}),
  StackRow("stack_push3", "stack push=3", "push", 1, {3}),
  StackRow("stack_pop3", "stack pop=3", "pop", 1, {3}),
  StackRow("stack_flip1", "stack flip=1", "flip", 1, {1}),
  StackRow("stack_roll", "stack roll=2,1", "roll", 2, {}),
  StackRow("legacy_push", "push v_1 v_2", "push", 2, {1, 2}),
  StackRow("legacy_pop", "pop v_1 v_2", "pop", 2, {1, 2})
>>

Rows == TmercRows \o CylRows \o ConicRows \o LaeaRows \o SpaceRows \o GridRows \o ConvRows \o LatRows \o LookupRows \o StackRows
NRows == Len(Rows)
RowIdx(id) == CHOOSE i \in 1..NRows : Rows[i].id = id
SingleRows == {i \in 1..NRows : Rows[i].single}

\* the 36 built-in names; `pipeline` is exercised by every pipeline case
BuiltinNames == {"adapt", "addone", "axisswap", "btmerc", "butm", "cart", "curvature", "deflection", "deformation", "dm", "dms",
    "geodesic", "gravity", "gridshift", "helmert", "laea", "latitude", "lcc", "merc", "webmerc", "molodensky", "omerc",
    "permtide", "somerc", "tmerc", "unitconvert", "utm", "pipeline", "pop", "push", "stack", "noop", "longlat", "latlon",
    "latlong", "lonlat"}

DirOf(r, d) == IF d = "F" THEN r.F ELSE r.I
Supported(r, d) == d = "F" \/ r.inv
\* ---- derived value classes -----------------------------------------------------
\* "inf": the first inside point with +inf / -inf in ONE element that is read - for directions with a declared
\* limit only: there an infinite coordinate is beyond every limit ("far outside"), or at least it is a tuple of which
\* the statement's dichotomy can be asked (see Outcomes).  Operators without a declared limit are not asked: the
\* statement speaks of NaN inputs, not of infinite ones, and an affine operator (helmert, addone, unitconvert,
\* adapt, axisswap) legitimately delivers inf - inf = NaN for them.
\* "unt": the first inside point with +inf / -inf / -0.0 in ONE element the operator does not work on (neither
\* read nor written): the tuple is as much inside the domain as the point it was made from.
ElSeq(S) == SelectSeq(<<1, 2, 3, 4>>, LAMBDA e : e \in S)
InfVals == <<"inf", "-inf">>
UntVals == <<"inf", "-inf", "-0.0">>
Spread(pt, els, vals) ==     \* one point per (element of els, value of vals): pt with that element replaced
    [k \in 1..(Len(els) * Len(vals)) |-> [pt EXCEPT ![els[((k - 1) \div Len(vals)) + 1]] = vals[((k - 1) % Len(vals)) + 1]]]
SpreadEl(els, vals, k) == els[((k - 1) \div Len(vals)) + 1]        \* the element replaced in point k
InfEls(dr) == IF dr.lim /\ dr.stk = "" /\ Len(dr.ins) > 0 THEN ElSeq(dr.rd) ELSE <<>>
UntEls(dr) == IF dr.stk = "" /\ Len(dr.ins) > 0 THEN ElSeq(E \ (dr.rd \cup dr.wr)) ELSE <<>>
InfPts(dr) == IF Len(InfEls(dr)) = 0 THEN <<>> ELSE Spread(dr.ins[1], InfEls(dr), InfVals)
UntPts(dr) == IF Len(UntEls(dr)) = 0 THEN <<>> ELSE Spread(dr.ins[1], UntEls(dr), UntVals)
\* the element of a derived point that carries the special value (0 for the other classes): a NaN mask never covers it
SpecialEl(dr, cls, pi) == CASE cls = "inf" -> SpreadEl(InfEls(dr), InfVals, pi) [] cls = "unt" -> SpreadEl(UntEls(dr), UntVals, pi) [] OTHER -> 0

Classes == <<"in", "out", "edge", "nul", "cor", "inf", "unt">>
ClassSet == {Classes[i] : i \in 1..Len(Classes)}
PtsOf(dr, cls) == CASE cls = "in" -> dr.ins [] cls = "out" -> dr.out [] cls = "edge" -> dr.edge [] cls = "nul" -> dr.nul
                    [] cls = "cor" -> dr.cor [] cls = "inf" -> InfPts(dr) [] cls = "unt" -> UntPts(dr)

\* ---- well-formedness of the table ----------------------------------------------
IsPoint(p) == DOMAIN p = 1..4
DirOK(dr) ==
    /\ dr.rd \subseteq E /\ dr.wr \subseteq E
    /\ \A o \in dr.wr : dr.dep[o] \subseteq dr.rd
    /\ (Len(dr.out) > 0 \/ Len(dr.edge) > 0 \/ Len(dr.nul) > 0) => dr.lim      \* no invented limits: points beyond a limit only where one is declared
    /\ \A c \in ClassSet : \A i \in 1..Len(PtsOf(dr, c)) : IsPoint(PtsOf(dr, c)[i])
    \* the derived points differ from the inside point in exactly one element
    /\ \A c \in {"inf", "unt"} : \A i \in 1..Len(PtsOf(dr, c)) :
          LET e == SpecialEl(dr, c, i) IN /\ e \in E /\ (c = "inf" => e \in dr.rd) /\ (c = "unt" => e \notin dr.rd \cup dr.wr)
                                         /\ \A x \in E \ {e} : PtsOf(dr, c)[i][x] = dr.ins[1][x]
                                         /\ PtsOf(dr, c)[i][e] \in {"inf", "-inf", "-0.0"}
    /\ Len(InfPts(dr)) > 0 => dr.lim
TableOK ==
    /\ \A i, j \in 1..NRows : i # j => Rows[i].id # Rows[j].id
    /\ \A i \in 1..NRows : LET r == Rows[i] IN
          /\ DirOK(r.F) /\ (r.inv => DirOK(r.I))
          /\ r.single => Len(r.F.ins) > 0 /\ (r.inv => Len(r.I.ins) > 0)
          \* the inverse takes what the forward delivers (geodesic without `reversible` solves two different
          \* problems in its two directions; deformation raw delivers the correction itself both ways)
          /\ (r.inv /\ r.single /\ r.id \notin {"geodesic", "deformation_raw"}) => (r.I.kin = r.F.kout /\ r.I.kout = r.F.kin)
          /\ r.ident => (r.F.wr = {} /\ r.F.rd = {})
ASSUME TableOK

(***************************************************************************)
(* Abstract semantics of ONE application to ONE tuple                      *)
(***************************************************************************)
Forced(dr, M, o) == dr.dep[o] \cap M # {}
Clean(dr, M) == M \cap dr.rd = {}

\* transformed and counted
Succ(dr, M, mv) ==
    [c |-> TRUE, sn |-> FALSE, mv |-> mv,
     el |-> [e \in E |-> IF e \in dr.wr THEN (IF Forced(dr, M, e) THEN "nan" ELSE IF Clean(dr, M) THEN "new" ELSE "any") ELSE "same"]]
\* failed: not counted, NaN somewhere (where is not specified).  Whether "a NaN input element yields NaN in
\* every dependent output" also binds tuples that are NOT transformed is not clear from the statement: not required
Failed(dr, M) == [c |-> FALSE, sn |-> TRUE, mv |-> FALSE, el |-> [e \in E |-> "any"]]
\* outside coverage with a null grid: passed through unchanged and counted
Passed == [c |-> TRUE, sn |-> FALSE, mv |-> FALSE, el |-> [e \in E |-> "same"]]
\* unsupported inverse of a one-way operator: nothing counted, nothing touched
Untouched == [c |-> FALSE, sn |-> FALSE, mv |-> FALSE, el |-> [e \in E |-> "same"]]

Outcomes(r, d, cls, M) ==
    LET dr == DirOf(r, d) IN
    IF ~Supported(r, d) THEN {Untouched}
    ELSE IF Clean(dr, M)
         THEN CASE cls = "in"   -> {Succ(dr, M, dr.mv)}
                [] cls = "out"  -> {Failed(dr, M)}
                [] cls = "nul"  -> {Passed}
                [] cls = "edge" -> {Succ(dr, M, FALSE), Failed(dr, M)}
                \* a corner of the value space: transformed (numbers in the written elements) and counted, or NaN and not
                \* counted - a counted tuple with NaN in a written element although nothing it read was NaN has not
                \* been transformed: its failure is not visible in the count
                [] cls = "cor"  -> {Succ(dr, M, FALSE), Failed(dr, M)}
                \* an infinite value in an element that is read, where a limit is declared: the same dichotomy (with a
                \* null grid a tuple outside coverage is passed through: Passed is Succ with nothing changed)
                [] cls = "inf"  -> {Succ(dr, M, FALSE), Failed(dr, M)}
                \* an infinite value or a negative zero in an element the operator does not work on: inside
                [] cls = "unt"  -> {Succ(dr, M, dr.mv)}
         \* NaN in an element that is read: counted or not is not prescribed;
         \* with a null grid a tuple that cannot be located is passed through
         ELSE IF Len(dr.nul) > 0 THEN {Succ(dr, M, FALSE), Failed(dr, M), Passed}
         ELSE {Succ(dr, M, FALSE), Failed(dr, M)}

(***************************************************************************)
(* Deviation switches (DESIGN 2.3): what the code is KNOWN to do instead   *)
(* of the reference, as named alternatives.  They never widen the          *)
(* reference: an observation is classified under a deviation only if it    *)
(* contradicts the reference and equals the deviated prediction.           *)
(***************************************************************************)
GridshiftNoNull == {"gridshift_datum", "gridshift_geoid", "gridshift_optional"}
\* the deviation (if any) that applies to one application of row r to a tuple of class cls, point pi, mask M
Deviation(r, d, cls, pi, M) ==
    LET dr == DirOf(r, d) IN
    IF ~Supported(r, d) \/ ~Clean(dr, M) THEN ""
    \* cart tests the (untouched) epoch for NaN before counting
    ELSE IF r.id \in {"cart", "cart_intl"} /\ cls = "in" /\ 4 \in M THEN "DEV_cart_nan_epoch_uncounted"
    \* cart inv: a point on the Z axis is converted but not counted
    ELSE IF r.id = "cart_intl" /\ d = "I" /\ cls = "in" /\ pi = 2 THEN "DEV_cart_inv_axis_uncounted"
    \* geodesic reversible, inverse: converted but never counted
    ELSE IF r.id = "geodesic_reversible" /\ d = "I" /\ cls = "in" THEN "DEV_geodesic_reversible_inv_uncounted"
    \* gridshift inverse outside coverage: left unchanged, not counted
    ELSE IF r.id \in GridshiftNoNull /\ d = "I" /\ cls = "out" THEN "DEV_gridshift_inv_outside_unchanged"
    \* deflection ignores @null
    ELSE IF r.id = "deflection_null" /\ cls = "nul" THEN "DEV_deflection_null_ignored"
    \* laea, equatorial aspect: the inverse rejects points inside the disc
    ELSE IF r.id = "laea_equatorial" /\ d = "I" /\ cls = "in" THEN "DEV_laea_equatorial_inverse_rejects"
    \* laea, polar aspects: the inverse has no disc test
    ELSE IF r.id \in {"laea_north", "laea_south"} /\ d = "I" /\ cls = "out" THEN "DEV_laea_polar_inverse_no_disc"
    ELSE ""
DevOutcomes(dev, r, d, M) ==
    LET dr == DirOf(r, d) IN
    CASE dev \in {"DEV_cart_nan_epoch_uncounted", "DEV_cart_inv_axis_uncounted", "DEV_geodesic_reversible_inv_uncounted"}
              -> {[Succ(dr, M, dr.mv) EXCEPT !.c = FALSE]}
      [] dev = "DEV_gridshift_inv_outside_unchanged" -> {Untouched}
      [] dev \in {"DEV_deflection_null_ignored", "DEV_laea_equatorial_inverse_rejects"} -> {Failed(dr, M)}
      \* counted although outside the disc (whatever it then delivers in the elements it writes)
      [] dev = "DEV_laea_polar_inverse_no_disc" -> {[Succ(dr, M, FALSE) EXCEPT !.el = [e \in E |-> IF e \in dr.wr THEN "any" ELSE "same"]]}
      [] OTHER -> {}
\* the outcomes with the deviations switched on
DOutcomes(r, d, cls, pi, M) ==
    LET dev == Deviation(r, d, cls, pi, M) IN IF dev = "" THEN Outcomes(r, d, cls, M) ELSE DevOutcomes(dev, r, d, M)

Counted(O) == IF \A o \in O : o.c THEN "yes" ELSE IF \A o \in O : ~o.c THEN "no" ELSE "either"

\* ---- the sanity of the abstract semantics (checked by TLC for every case) -------
OutcomeSane(r, d, cls, M) ==
    LET dr == DirOf(r, d)  O == Outcomes(r, d, cls, M) IN
    /\ O # {}
    \* every tuple not counted carries NaN - except after the unsupported inverse of a one-way operator
    /\ \A o \in O : ~o.c => (o.sn \/ (~Supported(r, d) /\ o = Untouched))
    \* a counted tuple keeps the elements the operator does not work on
    /\ \A o \in O : o.c => \A e \in E \ dr.wr : o.el[e] = "same"
    /\ Supported(r, d) =>
         \* a NaN input element yields NaN in every output element that depends on it
         /\ \A o \in O \ {Passed} : o.c => \A e \in dr.wr : Forced(dr, M, e) => o.el[e] = "nan"
         \* inside and nothing read is NaN: transformed and counted, written elements are numbers
         /\ (cls \in {"in", "unt"} /\ Clean(dr, M)) => (Counted(O) = "yes" /\ \A o \in O : \A e \in dr.wr : o.el[e] = "new")
         \* nothing read is NaN: a counted tuple has numbers in every element the operator writes, whatever the class
         /\ Clean(dr, M) => \A o \in O \ {Passed} : o.c => \A e \in dr.wr : o.el[e] = "new"
         \* far outside a declared limit: never counted, never looking valid
         /\ (cls = "out" /\ Clean(dr, M)) => (Counted(O) = "no" /\ \A o \in O : o.sn)
    /\ ~Supported(r, d) => Counted(O) = "no"

\* the cases of one (row, direction): class x point x mask
CasesOf(r, d) ==
    IF ~Supported(r, d) THEN {[cls |-> "in", pi |-> i, M |-> M] : i \in 1..Len(r.F.ins), M \in Masks}     \* the forward points, applied in reverse
    ELSE LET dr == DirOf(r, d) IN
         UNION {{cs \in {[cls |-> c, pi |-> i, M |-> M] : i \in 1..Len(PtsOf(dr, c)), M \in Masks} : SpecialEl(dr, c, cs.pi) \notin cs.M}
                : c \in ClassSet}
PointOf(r, d, cs) == IF ~Supported(r, d) THEN r.F.ins[cs.pi] ELSE PtsOf(DirOf(r, d), cs.cls)[cs.pi]

\* a set of tuples in one call: bounds of the count
SetLo(r, d, S) == Cardinality({cs \in S : Counted(Outcomes(r, d, cs.cls, cs.M)) = "yes"})
SetHi(r, d, S) == Cardinality({cs \in S : Counted(Outcomes(r, d, cs.cls, cs.M)) # "no"})
\* with the deviation switches DV (a set of names) on
OutcomesOn(DV, r, d, cs) == IF Deviation(r, d, cs.cls, cs.pi, cs.M) \in DV THEN DOutcomes(r, d, cs.cls, cs.pi, cs.M) ELSE Outcomes(r, d, cs.cls, cs.M)
DSetLo(DV, r, d, S) == Cardinality({cs \in S : Counted(OutcomesOn(DV, r, d, cs)) = "yes"})
DSetHi(DV, r, d, S) == Cardinality({cs \in S : Counted(OutcomesOn(DV, r, d, cs)) # "no"})
SetDevs(r, d, S) == {Deviation(r, d, cs.cls, cs.pi, cs.M) : cs \in S} \ {""}

(***************************************************************************)
(* Pipelines: composition of the abstract transformers                      *)
(*                                                                         *)
(* A step is [r (row index), inv, om ("" | "of" | "oi")].  In direction d   *)
(* the steps not omitted for d are executed, first to last (F) or last to   *)
(* first (I), each in direction d (+) inv.  An abstract tuple is            *)
(*      [el : 4 statuses out of same | val | nan | any,  sn : carries NaN]  *)
(* relative to the tuple the pipeline was given.                            *)
(***************************************************************************)
Flip(d) == IF d = "F" THEN "I" ELSE "F"
Eff(d, inv) == IF inv THEN Flip(d) ELSE d
Skipped(s, d) == (d = "F" /\ s.om = "of") \/ (d = "I" /\ s.om = "oi")
Order(P, d) == IF d = "F" THEN [i \in 1..Len(P) |-> i] ELSE [i \in 1..Len(P) |-> Len(P) + 1 - i]
\* indices of the executed steps, in execution order
Exec(P, d) == SelectSeq(Order(P, d), LAMBDA i : ~Skipped(P[i], d))
StepDir(P, d, i) == Eff(d, P[i].inv)
StepRec(P, d, i) == DirOf(Rows[P[i].r], StepDir(P, d, i))
StepSupported(P, d, i) == Supported(Rows[P[i].r], StepDir(P, d, i))

\* depth of the stack before each executed step, and whether that step underflows
RECURSIVE DepthBefore(_, _, _)
DepthBefore(P, d, k) ==      \* k: position in Exec(P, d)
    IF k = 1 THEN 0
    ELSE LET i == Exec(P, d)[k - 1]  dr == StepRec(P, d, i)  b == DepthBefore(P, d, k - 1) IN
         CASE dr.stk = "push" -> b + dr.k
           [] dr.stk = "pop"  -> IF b >= dr.k THEN b - dr.k ELSE 0     \* after an underflow whatever was there is gone or kept: see Underflows
           [] OTHER -> b
Underflows(P, d, k) ==
    LET dr == StepRec(P, d, Exec(P, d)[k]) IN dr.stk \in {"pop", "flip", "roll"} /\ DepthBefore(P, d, k) < dr.k
\* after an underflowing legacy pop some columns may have been popped: the depth is then unknown;
\* pipelines are explored only up to their first underflow (see PipeOK)

Known(a) == {e \in E : a.el[e] = "nan"}
Unk(a)   == {e \in E : a.el[e] = "any"}
Kept(dr, e) == e \notin dr.wr \/ \E o \in dr.wr : e \in dr.dep[o]      \* a NaN in input element e survives a successful application
\* the step counted the tuple: is a NaN still guaranteed somewhere?
Persist(dr, a) == \/ \E e \in Known(a) : Kept(dr, e)
                  \/ a.sn /\ Known(a) = {} /\ Unk(a) # {} /\ \A e \in Unk(a) : Kept(dr, e)
AllAny == [e \in E |-> "any"]

\* the deviation (if any) that applies to a step of a pipeline (pi: index of the head's point, 0 elsewhere)
StepDeviation(rid, sd, dr, cls, pi, a) ==
    IF (Known(a) \cup Unk(a)) \cap dr.rd # {} THEN ""
    ELSE IF rid \in {"cart", "cart_intl"} /\ cls = "in" /\ a.el[4] = "nan" THEN "DEV_cart_nan_epoch_uncounted"
    ELSE IF rid = "cart_intl" /\ sd = "I" /\ cls = "in" /\ pi = 2 THEN "DEV_cart_inv_axis_uncounted"
    ELSE IF rid = "geodesic_reversible" /\ sd = "I" /\ cls = "in" THEN "DEV_geodesic_reversible_inv_uncounted"
    ELSE IF rid \in GridshiftNoNull /\ sd = "I" /\ cls = "out" THEN "DEV_gridshift_inv_outside_unchanged"
    ELSE IF rid = "deflection_null" /\ cls = "nul" THEN "DEV_deflection_null_ignored"
    ELSE IF rid = "laea_equatorial" /\ sd = "I" /\ cls = "in" THEN "DEV_laea_equatorial_inverse_rejects"
    ELSE IF rid \in {"laea_north", "laea_south"} /\ sd = "I" /\ cls = "out" THEN "DEV_laea_polar_inverse_no_disc"
    ELSE ""

\* one executed step on one abstract tuple: [cnt: yes | no | either | zero, a: the abstract tuple after the step,
\* dev: the deviation that was applied (one of the switches dv that are on), cand: the one that would apply]
StepOn(rid, sd, dr, supported, underflow, cls, pi, a, dv) ==
    LET dirty == (Known(a) \cup Unk(a)) \cap dr.rd # {}
        dv0 == IF supported /\ dr.stk = "" THEN StepDeviation(rid, sd, dr, cls, pi, a) ELSE ""
        dev == IF dv0 \in dv THEN dv0 ELSE ""        \* dv: the set of deviation switches that are on
        done == [el |-> [e \in E |-> IF e \in dr.wr THEN "val" ELSE a.el[e]], sn |-> Persist(dr, a)]
    IN
    IF ~supported THEN [cnt |-> "zero", a |-> a, dev |-> "", cand |-> dv0]
    ELSE IF dr.stk # "" THEN
         IF underflow THEN [cnt |-> "no", a |-> [el |-> AllAny, sn |-> TRUE], dev |-> "", cand |-> dv0]
         ELSE [cnt |-> "yes", a |-> [el |-> [e \in E |-> IF e \in dr.wr THEN "any" ELSE a.el[e]], sn |-> Persist(dr, a)], dev |-> "", cand |-> dv0]
    ELSE IF dev = "DEV_gridshift_inv_outside_unchanged" THEN [cnt |-> "no", a |-> a, dev |-> dev, cand |-> dv0]
    ELSE IF dev \in {"DEV_deflection_null_ignored", "DEV_laea_equatorial_inverse_rejects"} THEN [cnt |-> "no", a |-> [el |-> AllAny, sn |-> TRUE], dev |-> dev, cand |-> dv0]
    ELSE IF dev = "DEV_laea_polar_inverse_no_disc"
         THEN [cnt |-> "yes", a |-> [el |-> [e \in E |-> IF e \in dr.wr THEN "any" ELSE a.el[e]], sn |-> Persist(dr, a)], dev |-> dev, cand |-> dv0]
    ELSE IF dev # "" THEN [cnt |-> "no", a |-> done, dev |-> dev, cand |-> dv0]
    ELSE IF ~dirty /\ cls = "in"  THEN [cnt |-> "yes", a |-> done, dev |-> "", cand |-> dv0]
    ELSE IF ~dirty /\ cls = "nul" THEN [cnt |-> "yes", a |-> a, dev |-> "", cand |-> dv0]
    ELSE IF ~dirty /\ cls = "out" THEN [cnt |-> "no", a |-> [el |-> AllAny, sn |-> TRUE], dev |-> "", cand |-> dv0]
    \* counted (then NaN inputs propagate and untouched elements stay) or not (then NaN somewhere): which is not prescribed
    ELSE [cnt |-> "either", a |-> [el |-> AllAny, sn |-> Persist(dr, a)], dev |-> "", cand |-> dv0]

\* the head: the first executed step that is neither an identity nor a stack step - its points are the members
IsPlainStep(P, d, i) == Rows[P[i].r].ident \/ StepRec(P, d, i).stk # ""
HeadPos(P, d) == LET ex == Exec(P, d)  S == {k \in 1..Len(ex) : ~IsPlainStep(P, d, ex[k])} IN
                 IF S = {} THEN 0 ELSE CHOOSE k \in S : \A j \in S : k <= j
\* an executed one-way step asked for its inverse: the pipeline reports zero, the data are not compared
HasZero(P, d) == \E k \in 1..Len(Exec(P, d)) : ~StepSupported(P, d, Exec(P, d)[k])

\* kinds chain along the executed steps
RECURSIVE KindAfter(_, _, _)
KindAfter(P, d, k) ==       \* kind of the tuples after k executed steps; "!" = ill-typed
    IF k = 0 THEN "any"
    ELSE LET before == KindAfter(P, d, k - 1)  dr == StepRec(P, d, Exec(P, d)[k]) IN
         IF before = "!" THEN "!"
         \* a kind-preserving step; as the head it works on its own points, which are geographical
         ELSE IF dr.kin = "any" THEN (IF before = "any" /\ ~IsPlainStep(P, d, Exec(P, d)[k]) THEN "geo" ELSE before)
         ELSE IF before \in {"any", dr.kin} THEN dr.kout ELSE "!"
\* what the specification can predict: well typed; a step with a declared limit only as the head, after
\* identities only; nothing after the first stack underflow except more of the pipeline's steps (their
\* result is "any"); every row of the pipeline supports the modifiers it is given
Predictable(P, d) ==
    LET ex == Exec(P, d)  h == HeadPos(P, d) IN
    /\ HasZero(P, d) \/ KindAfter(P, d, Len(ex)) # "!"
    /\ \A k \in 1..Len(ex) : (StepSupported(P, d, ex[k]) /\ StepRec(P, d, ex[k]).lim) =>
            (k = h /\ \A j \in 1..(k - 1) : Rows[P[ex[j]].r].ident)
    /\ \A k \in 1..Len(ex) : Underflows(P, d, k) => \A j \in 1..(k - 1) : ~Underflows(P, d, j)
    /\ \A k, j \in 1..Len(ex) : (j < k /\ Underflows(P, d, j)) => StepRec(P, d, ex[k]).stk = ""

DefaultMembers == {[cls |-> "in", pi |-> 1, pt |-> PGeo, M |-> M] : M \in {{}, {1}, {3}, {4}}}
PipeMasks == {{}} \cup {{e} : e \in E}
Members(P, d) ==
    LET h == HeadPos(P, d) IN
    IF h = 0 \/ HasZero(P, d) THEN DefaultMembers
    ELSE LET dr == StepRec(P, d, Exec(P, d)[h]) IN
         \* of the inside points only the first, generic one: where the image of a special point (pole, axis, centre)
         \* lies for the next step is not something this abstraction knows; they are exercised by the single cases
         UNION {{[cls |-> c, pi |-> i, pt |-> PtsOf(dr, c)[i], M |-> M] : i \in 1..(IF c = "in" THEN 1 ELSE Len(PtsOf(dr, c))), M \in PipeMasks}
                : c \in {"in", "out", "edge", "nul"}}

Initial(m) == [el |-> [e \in E |-> IF e \in m.M THEN "nan" ELSE "same"], sn |-> m.M # {}]
\* the abstract run of one member: sequence (one entry per executed step) of [cnt, a]
RECURSIVE RunFrom(_, _, _, _, _, _)
RunFrom(P, d, m, k, a, dv) ==
    LET ex == Exec(P, d) IN
    IF k > Len(ex) THEN <<>>
    ELSE LET cls == IF k = HeadPos(P, d) THEN m.cls ELSE "in"
             r == StepOn(Rows[P[ex[k]].r].id, StepDir(P, d, ex[k]), StepRec(P, d, ex[k]), StepSupported(P, d, ex[k]),
                         Underflows(P, d, k), cls, (IF k = HeadPos(P, d) THEN m.pi ELSE 0), a, dv)
         IN <<r>> \o RunFrom(P, d, m, k + 1, r.a, dv)
\* dv = {}: the reference; otherwise the set of deviation switches that are on
AllDevs == {"DEV_cart_nan_epoch_uncounted", "DEV_cart_inv_axis_uncounted", "DEV_geodesic_reversible_inv_uncounted",
            "DEV_gridshift_inv_outside_unchanged", "DEV_deflection_null_ignored", "DEV_laea_equatorial_inverse_rejects",
            "DEV_laea_polar_inverse_no_disc"}
PipeRunD(P, d, m, dv) == RunFrom(P, d, m, 1, Initial(m), dv)
PipeRun(P, d, m) == PipeRunD(P, d, m, {})
FinalD(P, d, m, dv) == LET run == PipeRunD(P, d, m, dv) IN IF Len(run) = 0 THEN Initial(m) ELSE run[Len(run)].a
Final(P, d, m) == FinalD(P, d, m, {})
\* the deviation switches that could matter for this pipeline: those that would apply in the reference run or in the run
\* with every switch on (one switch can hide or expose the trigger of another further down the pipeline)
PipeDevs(P, d, MS) == UNION {{PipeRunD(P, d, m, dv)[k].cand : k \in 1..Len(Exec(P, d)), dv \in {{}, AllDevs}} : m \in MS} \ {""}

\* bounds of the count of executed step k over a set of members, and of the pipeline
StepLoD(P, d, MS, k, dv) == Cardinality({m \in MS : PipeRunD(P, d, m, dv)[k].cnt = "yes"})
StepHiD(P, d, MS, k, dv) == Cardinality({m \in MS : PipeRunD(P, d, m, dv)[k].cnt \in {"yes", "either"}})
StepLo(P, d, MS, k) == StepLoD(P, d, MS, k, {})
StepHi(P, d, MS, k) == StepHiD(P, d, MS, k, {})
MinOver(f, n, dflt) == IF n = 0 THEN dflt ELSE CHOOSE v \in {f[k] : k \in 1..n} : \A k \in 1..n : v <= f[k]
PipeLoD(P, d, MS, dv) == LET n == Len(Exec(P, d)) IN MinOver([k \in 1..n |-> StepLoD(P, d, MS, k, dv)], n, Cardinality(MS))
PipeHiD(P, d, MS, dv) == LET n == Len(Exec(P, d)) IN MinOver([k \in 1..n |-> StepHiD(P, d, MS, k, dv)], n, Cardinality(MS))
PipeLo(P, d, MS) == PipeLoD(P, d, MS, {})
PipeHi(P, d, MS) == PipeHiD(P, d, MS, {})

\* every later step lets a NaN through
RECURSIVE LaterKeep(_, _, _)
LaterKeep(P, d, k) == LET ex == Exec(P, d) IN
    IF k > Len(ex) THEN TRUE
    ELSE LET dr == StepRec(P, d, ex[k]) IN (StepSupported(P, d, ex[k]) => \A e \in E : Kept(dr, e)) /\ LaterKeep(P, d, k + 1)

\* sanity of the composition (checked by TLC for every pipeline explored)
PipeSane(P, d) ==
    LET MS == Members(P, d)  n == Len(Exec(P, d)) IN
    /\ 0 <= PipeLo(P, d, MS) /\ PipeLo(P, d, MS) <= PipeHi(P, d, MS) /\ PipeHi(P, d, MS) <= Cardinality(MS)
    /\ \A k \in 1..n : StepLo(P, d, MS, k) <= StepHi(P, d, MS, k)
    /\ HasZero(P, d) => PipeHi(P, d, MS) = 0
    /\ \A m \in MS : LET run == PipeRun(P, d, m)  f == Final(P, d, m) IN
          \* a known NaN element implies "carries NaN"
          /\ (\E e \in E : f.el[e] = "nan") => f.sn
          \* a tuple some step certainly did not count carries NaN to the end, provided the later steps let NaN through
          /\ \A k \in 1..n : (run[k].cnt = "no" /\ LaterKeep(P, d, k + 1)) => f.sn
          \* a tuple every step certainly counted keeps the elements no step works on, and has no unknown element
          /\ (\A k \in 1..n : run[k].cnt = "yes" /\ StepRec(P, d, Exec(P, d)[k]).stk = "") =>
                \A e \in E : /\ f.el[e] # "any"
                              /\ (\A k \in 1..n : e \notin StepRec(P, d, Exec(P, d)[k]).wr \/ (k = HeadPos(P, d) /\ m.cls = "nul"))
                                     => f.el[e] \in {"same", "nan"}

\* text of a pipeline
StepText(s) == Rows[s.r].def \o (IF s.inv THEN " inv" ELSE "") \o (IF s.om = "of" THEN " omit_fwd" ELSE IF s.om = "oi" THEN " omit_inv" ELSE "")
RECURSIVE PipeTextFrom(_, _)
PipeTextFrom(P, i) == IF i > Len(P) THEN "" ELSE (IF i = 1 THEN "" ELSE " | ") \o StepText(P[i]) \o PipeTextFrom(P, i + 1)
PipeText(P) == PipeTextFrom(P, 1)
PipeCtx(P) == IF \E i \in 1..Len(P) : Rows[P[i].r].ctx = "plain" THEN "plain" ELSE "minimal"
=============================================================================
