----------------------------- MODULE ProjSyntax -----------------------------
(***************************************************************************)
(* PROJ strings and their meaning in Geodesy (C17).                        *)
(*                                                                         *)
(* A PROJ definition is                                                    *)
(*   [pipe, ginv, globals, steps]                                          *)
(*     pipe    : TRUE: "proj=pipeline <globals> step ... step ...";        *)
(*               FALSE: a single operation "proj=name args" (one step, no  *)
(*               globals)                                                  *)
(*     ginv    : the pipeline as a whole carries inv                       *)
(*     globals : arguments given at pipeline level                         *)
(*     steps   : steps [name, args, inv, of, oi] as in module Pipeline;    *)
(*               in the text the name is the value of proj=                *)
(*                                                                         *)
(* (1) Translate: the REFERENCE translation to a Geodesy definition (a     *)
(*     Pipeline AST): steps in order; every step sees the globals, placed  *)
(*     before its own arguments so that its own win; a pipeline-level inv  *)
(*     yields exactly the inverse of the non-inverted pipeline: steps      *)
(*     reversed, each step's direction exchanged, omit_fwd and omit_inv    *)
(*     exchanged -- a step left out when the ORIGINAL runs forward is left *)
(*     out when the inverted one runs inverse: the omissions keep their    *)
(*     meaning; without pipeline-level inv they stay as written.  a with   *)
(*     rf (and no ellps) becomes ellps=a,rf -- also where the step gives   *)
(*     both itself and an ellps comes from the pipeline level only (the    *)
(*     step's own win); k becomes k_0.  init= and nested pipelines are     *)
(*     refused.  Text that is not PROJ syntax (no proj= element: a         *)
(*     Geodesy definition, family "pass") passes unchanged.                *)
(* (2) Render: PROJ AST x layout -> text ('+' prefixes, blanks around '=', *)
(*     blank / blanks / TAB between the elements, one line or a line per   *)
(*     step (indented by blanks or a TAB) with LF / CR / CRLF, comments,   *)
(*     order of the elements of a step and of the pipeline header).        *)
(*     Family "pass": a Geodesy definition that merely CONTAINS the word   *)
(*     proj (in a comment, a macro name, a value), rendered by module      *)
(*     Syntax with continuation lines, comments, line ends, < > sugar.     *)
(* (3) The state machine enumerating layouts per case (one action per      *)
(*     choice) and the invariants                                          *)
(*       InvIsInverse    Plan(Translate(inv P), d) = Plan(Translate(P),    *)
(*                       opposite d), same results and counts              *)
(*       LocalsWin       globals never override a step's own arguments,    *)
(*       RewrittenLocalsWin  also not where a/rf and k are rewritten       *)
(*       OrderKept       step order is kept (reversed under inv)           *)
(*       OmitMeaning     a step is skipped in direction d of Translate(P)  *)
(*                       exactly when PROJ would skip it                   *)
(* Pipeline (instantiation, Plan, BigApply on the probe basis) and Syntax  *)
(* (canonical text of a definition) are instantiated, not modified.        *)
(***************************************************************************)
EXTENDS Values, Json

CONSTANTS PjCases,      \* sequence of cases [p |-> PROJ AST, fam |-> "probe" | "shared" | "pass", refuse |-> "" | "init" | "nested"]
                        \* (fam = "pass": p.steps is a Geodesy definition, nothing is to be translated)
          PjResources,  \* function: macro name -> Geodesy definition AST (registered in canonical form)
          PjMaxChoices, \* bound on simultaneous non-default layout choices
          PjData        \* operands for the exact expectations (probe family)

P == INSTANCE Pipeline WITH Progs <- {}, Resources <- <<>>, Globals <- <<>>, Data0 <- PjData, Styles <- {},
                            prog <- 0, style <- 0, tree <- 0, dir <- 0, frames <- 0, data <- 0, result <- 0, phase <- 0
Sx == INSTANCE Syntax WITH Cases <- <<>>, SxResources <- <<>>, MaxChoices <- 0, MacroPairs <- {}, IndexedKeys <- {},
                           ci <- 0, lay <- 0

PjCasesC == TLCEval(PjCases)
PjDataC  == TLCEval(PjData)
PjResC   == TLCEval(PjResources)
ProbeNames == {"t_add", "t_dbl", "t_oneway", "t_failodd", "noop"}

(***************************************************************************)
(* The reference translation                                               *)
(***************************************************************************)
HasKey(args, k) == \E i \in 1..Len(args) : args[i].k = k
LastIdx(args, k) == CHOOSE i \in 1..Len(args) : args[i].k = k /\ \A j \in 1..Len(args) : args[j].k = k => j <= i
ValWord(v) == CASE v.f = "lit" -> ToString(v.v) [] v.f = "txt" -> v.s

\* a and rf (without ellps) are the ellipsoid a,rf; k is k_0.
\* G: what comes from the pipeline level, own: the step's own arguments.  A step that gives a and rf itself (and no
\* ellps) has its own ellipsoid: an ellps from the pipeline level is a global that must not override step-local values.
\* (Any other combination of ellps with a / rf is not generated, see MC_C17.)
OwnEllipsoid(own) == HasKey(own, "a") /\ HasKey(own, "rf") /\ ~HasKey(own, "ellps")
Tidy2(G, own) ==
    LET args == G \o own
        ell == HasKey(args, "a") /\ HasKey(args, "rf") /\ (~HasKey(args, "ellps") \/ OwnEllipsoid(own))
        kept == IF ell THEN SelectSeq(args, LAMBDA x : x.k \notin {"a", "rf"}) ELSE args
        more == IF ell THEN << [k |-> "ellps", v |-> [f |-> "list", s |-> <<ValWord(args[LastIdx(args, "a")].v),
                                                                            ValWord(args[LastIdx(args, "rf")].v)>>]] >>
                ELSE <<>>
        all == kept \o more
    IN [i \in 1..Len(all) |-> IF all[i].k = "k" THEN [all[i] EXCEPT !.k = "k_0"] ELSE all[i]]
Tidy(args) == Tidy2(<<>>, args)

TransStep(s, G, ginv) ==
    [name |-> s.name, args |-> Tidy2(G, s.args),
     inv |-> (s.inv # ginv),
     of  |-> IF ginv THEN s.oi ELSE s.of,
     oi  |-> IF ginv THEN s.of ELSE s.oi]

Translate(p) ==
    LET ts == [i \in 1..Len(p.steps) |-> TransStep(p.steps[i], p.globals, p.ginv)]
    IN IF p.ginv THEN Rev(ts) ELSE ts

Refused(c) == c.refuse # ""

\* the Geodesy text the harness compares with
RefText(p) == Sx!CanonText(Translate(p))

(***************************************************************************)
(* Layout and rendering                                                    *)
(***************************************************************************)
PjFields == {"plus", "eq", "sep", "lines", "eol", "cpos", "order", "hdr", "outer"}
PjDefault == [f \in PjFields |->
    CASE f = "plus" -> "none" [] f = "eq" -> "no" [] f = "sep" -> "sp" [] f = "lines" -> "one" [] f = "eol" -> "lf"
      [] f = "cpos" -> "none" [] f = "order" -> "canon" [] f = "hdr" -> "canon"
      [] f = "outer" -> "none"]
PjAlts(f) ==
    CASE f = "plus"  -> {"all", "sp"}                 \* +proj=utm +zone=32   /   + proj=utm + zone=32
      [] f = "eq"    -> {"both", "right", "left"}
      [] f = "sep"   -> {"tab", "wide"}               \* what separates the elements: a blank / a TAB / two blanks
      [] f = "lines" -> {"steps", "steps0", "stepstab"}  \* a line per step, indented by blanks / not / by a TAB
      [] f = "eol"   -> {"cr", "crlf"}
      [] f = "cpos"  -> {"top", "mid", "end", "trail1", "traillast"}
      [] f = "order" -> {"projlast", "modsfirst", "mixed"}  \* where proj= and the modifiers stand in a step
      [] f = "hdr"   -> {"projlast"}                  \* inv globals proj=pipeline
      [] f = "outer" -> {"lead", "trail", "both"}
PjNonDefault(l) == {f \in PjFields : l[f] # PjDefault[f]}
PjFieldOrder == <<"plus", "eq", "sep", "lines", "eol", "cpos", "order", "hdr", "outer">>

PjHasEol(p, l) == (p.pipe /\ l["lines"] # "one") \/ l["cpos"] \in {"top", "mid", "end", "trail1"} \/ l["outer"] \in {"trail", "both"}

PjApplicable(p, l) ==
    LET D == PjNonDefault(l) IN
    /\ "lines" \in D => p.pipe
    /\ "sep" \in D   => (p.pipe \/ Len(p.steps[1].args) >= 1 \/ p.steps[1].inv \/ p.steps[1].of \/ p.steps[1].oi)
    /\ "hdr" \in D   => p.pipe /\ (p.ginv \/ Len(p.globals) > 0)
    /\ "eol" \in D   => PjHasEol(p, l)
    /\ l["cpos"] \in {"mid", "trail1"} => p.pipe
    /\ l["order"] = "mixed" => \E i \in 1..Len(p.steps) : Len(p.steps[i].args) >= 1
    /\ l["order"] = "modsfirst" => \E i \in 1..Len(p.steps) : p.steps[i].inv \/ p.steps[i].of \/ p.steps[i].oi

PjEol(l) == CASE l["eol"] = "lf" -> "\n" [] l["eol"] = "cr" -> "\r" [] l["eol"] = "crlf" -> "\r\n"

\* one element (a lexeme sequence) with its '+'
Plus(e, l) == CASE l["plus"] = "none" -> e [] l["plus"] = "all" -> <<"+">> \o e [] l["plus"] = "sp" -> <<"+", " ">> \o e
KV(k, vlex, l) == <<k>> \o Sx!Around("=", l["eq"]) \o vlex
PjValLex(v) == CASE v.f = "lit" -> <<ToString(v.v)>> [] v.f = "txt" -> <<v.s>> [] v.f = "list" -> Sx!ListLex(v.s, "no")
PjArg(a, l) == IF a.v.f = "flag" THEN <<a.k>> ELSE KV(a.k, PjValLex(a.v), l)

\* the elements of a step, in the order of the layout
StepElems(s, l) ==
    LET pr == <<KV("proj", <<s.name>>, l)>>
        ar == [j \in 1..Len(s.args) |-> PjArg(s.args[j], l)]
        iv == IF s.inv THEN << <<"inv">> >> ELSE <<>>
        om == (IF s.of THEN << <<"omit_fwd">> >> ELSE <<>>) \o (IF s.oi THEN << <<"omit_inv">> >> ELSE <<>>)
    IN CASE l["order"] = "canon"     -> pr \o iv \o ar \o om
         [] l["order"] = "projlast"  -> ar \o iv \o om \o pr
         [] l["order"] = "modsfirst" -> iv \o om \o pr \o ar
         [] l["order"] = "mixed"     -> IF Len(ar) = 0 THEN pr \o iv \o om ELSE <<ar[1]>> \o pr \o iv \o Tail(ar) \o om

HeaderElems(p, l) ==
    LET pr == <<KV("proj", <<"pipeline">>, l)>>
        iv == IF p.ginv THEN << <<"inv">> >> ELSE <<>>
        gl == [j \in 1..Len(p.globals) |-> PjArg(p.globals[j], l)]
    IN IF l["hdr"] = "canon" THEN pr \o iv \o gl ELSE iv \o gl \o pr

SepLex(l) == CASE l["sep"] = "sp" -> " " [] l["sep"] = "tab" -> "\t" [] l["sep"] = "wide" -> "  "
RECURSIVE SpacedBy(_, _)
SpacedBy(ss, b) == IF Len(ss) = 0 THEN <<>>
                   ELSE IF Head(ss) = <<>> THEN SpacedBy(Tail(ss), b)
                   ELSE LET r == SpacedBy(Tail(ss), b) IN IF r = <<>> THEN Head(ss) ELSE Head(ss) \o <<b>> \o r
Elems(es, l) == SpacedBy([i \in 1..Len(es) |-> Plus(es[i], l)], SepLex(l))

\* (a comment that contains '|' is not generated: parse_proj documents that a text with a '|' "does not look like a
\* PROJ string" and is passed on unchanged)
PjComment(l) == <<"#", " ", "c">>

PjRender(p, l) ==
    LET e == PjEol(l)
        n == Len(p.steps)
        lead == CASE l["outer"] = "lead" -> <<"  ">> [] l["outer"] = "both" -> <<e, "  ">> [] OTHER -> <<>>
        trail == CASE l["outer"] = "trail" -> <<" ", e>> [] l["outer"] = "both" -> <<"  ", e>> [] OTHER -> <<>>
        top == IF l["cpos"] = "top" THEN PjComment(l) \o <<e>> ELSE <<>>
        fin == (IF l["cpos"] = "traillast" THEN <<" ">> \o PjComment(l) ELSE <<>>)
               \o (IF l["cpos"] = "end" THEN <<e>> \o PjComment(l) ELSE <<>>)
    IN IF ~p.pipe THEN lead \o top \o Elems(StepElems(p.steps[1], l), l) \o fin \o trail
       ELSE LET hdr == Elems(HeaderElems(p, l), l)
                \* what separates a step from what precedes it
                brk == l["lines"] # "one"
                sep(i) == IF brk \/ (i = 1 /\ l["cpos"] \in {"mid", "trail1"})
                          THEN <<e>> \o (CASE l["lines"] = "steps" -> <<"    ">> [] l["lines"] = "stepstab" -> <<"\t">> [] OTHER -> <<>>)
                          ELSE <<SepLex(l)>>
                afterhdr == (IF l["cpos"] = "trail1" THEN <<" ">> \o PjComment(l) ELSE <<>>)
                            \o (IF l["cpos"] = "mid" THEN <<e>> \o PjComment(l) ELSE <<>>)
                step(i) == sep(i) \o Elems(<< <<"step">> >> \o StepElems(p.steps[i], l), l)
            IN lead \o top \o hdr \o afterhdr \o Sx!Flat([i \in 1..n |-> step(i)]) \o fin \o trail

PjText(lex) == JoinStr(lex, "")

PjIsWord(x) == ~(x \in {" ", "  ", "    ", "\t", "\n", "\r", "\r\n", "+", "=", ",", "#", "|"})
PjLexSafe(lex) == \A i \in 1..(Len(lex) - 1) : ~(PjIsWord(lex[i]) /\ PjIsWord(lex[i + 1]))

(***************************************************************************)
(* The enumeration                                                         *)
(***************************************************************************)
VARIABLES pc,   \* index of the case
          pl,   \* the PROJ layout chosen so far
          sl    \* family "pass": the layout (of module Syntax) chosen so far
pjvars == <<pc, pl, sl>>

Case == PjCasesC[pc]
Pj == Case.p
IsPass == Case.fam = "pass"

(***************************************************************************)
(* Family "pass": text that is not PROJ syntax                             *)
(* A Geodesy definition in the layouts of module Syntax.  The comment, if  *)
(* there is one, says "reprojected"; steps that can be written with < / >  *)
(* are (a text with '|' is passed on by a rule of its own).  The colon of  *)
(* a continuation line stands in the first column (the indented colon is   *)
(* the business of C16).                                                   *)
(***************************************************************************)
PassDef == Pj.steps
PassBase(def) == [Sx!Default EXCEPT !["ctext"] = "p",
                                    !["sugar"] = IF \E i \in 1..Len(def) : Sx!SxSugarable(def[i]) THEN "yes" ELSE "no"]
PassFields == {"cont", "cpos", "eol", "lines", "outer", "eq"}
PassAlts(f) == CASE f = "cont"  -> {"sp", "nosp"}
                 [] f = "cpos"  -> {"top", "mid", "end", "trail1", "traillast"}
                 [] f = "eol"   -> {"cr", "crlf"}
                 [] f = "lines" -> {"lead", "trail"}
                 [] f = "outer" -> {"both"}
                 [] f = "eq"    -> {"both"}
PassNonDefault(def, l) == {f \in PassFields : l[f] # PassBase(def)[f]}
PassFieldOrder == <<"cont", "cpos", "eol", "lines", "outer", "eq">>
PassText(def, l) == Sx!SxText(Sx!Render(def, l))
\* (what the comment says is not a choice here)
PassApplicable(def, l) == Sx!Applicable(def, [l EXCEPT !["ctext"] = Sx!Default["ctext"]])

PjInit == /\ pc \in 1..Len(PjCasesC) /\ pl = PjDefault
          /\ sl = IF PjCasesC[pc].fam = "pass" THEN PassBase(PjCasesC[pc].p.steps) ELSE Sx!Default

PjChoose == /\ ~IsPass
            /\ Cardinality(PjNonDefault(pl)) < PjMaxChoices
            /\ \E f \in PjFields : /\ pl[f] = PjDefault[f]
                                   /\ \E a \in PjAlts(f) : pl' = [pl EXCEPT ![f] = a] /\ PjApplicable(Pj, pl')
            /\ UNCHANGED <<pc, sl>>

PassChoose == /\ IsPass
              /\ Cardinality(PassNonDefault(PassDef, sl)) < PjMaxChoices
              /\ \E f \in PassFields : /\ sl[f] = PassBase(PassDef)[f]
                                       /\ \E a \in PassAlts(f) : sl' = [sl EXCEPT ![f] = a] /\ PassApplicable(PassDef, sl')
              /\ UNCHANGED <<pc, pl>>

PjNext == PjChoose \/ PassChoose
PjSpec == PjInit /\ [][PjNext]_pjvars

(***************************************************************************)
(* Invariants                                                              *)
(***************************************************************************)
IsProbeCase == Case.fam = "probe" /\ ~Refused(Case)

PjTypeOK == /\ pc \in 1..Len(PjCasesC)
            /\ ~IsPass =>
                 /\ Cardinality(PjNonDefault(pl)) <= PjMaxChoices /\ PjApplicable(Pj, pl)
                 /\ PjLexSafe(PjRender(Pj, pl))
                 /\ (~Pj.pipe => Len(Pj.steps) = 1 /\ Len(Pj.globals) = 0 /\ ~Pj.ginv)
                 /\ sl = Sx!Default
            /\ IsPass =>
                 /\ pl = PjDefault /\ ~Refused(Case) /\ ~Pj.pipe /\ ~Pj.ginv /\ Len(Pj.globals) = 0
                 /\ Cardinality(PassNonDefault(PassDef, sl)) <= PjMaxChoices /\ PassApplicable(PassDef, sl)

\* family "pass": every rendering still reads as the definition (module Syntax's reference reading), none has a proj=
\* element or a '|' -- it is not PROJ syntax and is not passed on by the rule for '|'
PassIsGeodesy == IsPass =>
    LET lex == Sx!Render(PassDef, sl)
        r == Sx!Parse(lex)
    IN /\ r.ok /\ r.def = Sx!NormDef(PassDef)
       /\ \A i \in 1..Len(lex) : lex[i] \notin {"proj", "|"}
       /\ \A i \in 1..Len(PassDef) : \A j \in 1..Len(PassDef[i].args) : PassDef[i].args[j].k # "proj"

Tree(p) == P!Instantiate(Translate(p))

\* a pipeline-level inv yields exactly the inverse of the non-inverted pipeline
InvIsInverse == (IsProbeCase /\ Pj.pipe) =>
    LET t0 == Tree([Pj EXCEPT !.ginv = FALSE])
        t1 == Tree([Pj EXCEPT !.ginv = TRUE])
    IN /\ t0.ok = t1.ok
       /\ t0.ok => \A d \in {"F", "I"} :
            /\ P!Plan(t1.v, d) = P!Plan(t0.v, P!Flip(d))
            /\ P!BigApply(t1.v, d, PjDataC) = P!BigApply(t0.v, P!Flip(d), PjDataC)

\* globals never override a step's own arguments; they do reach the steps that have none
LocalsWin == (~Refused(Case) /\ ~IsPass) =>
    \A i \in 1..Len(Pj.steps) :
        LET s == Pj.steps[i]
            all == Pj.globals \o s.args
        IN /\ \A k \in {s.args[j].k : j \in 1..Len(s.args)} : all[LastIdx(all, k)].v = s.args[LastIdx(s.args, k)].v
           /\ \A k \in {Pj.globals[j].k : j \in 1..Len(Pj.globals)} :
                 ~HasKey(s.args, k) => all[LastIdx(all, k)].v = Pj.globals[LastIdx(Pj.globals, k)].v
           /\ (IsProbeCase /\ s.name \in ProbeNames) =>
                 \A g \in P!Range(P!Gamut(s.name)) :
                    LET r == P!Lookup(TransStep(s, Pj.globals, Pj.ginv).args, g[1], g[2], <<>>)
                    IN r.ok /\ r.v = (IF HasKey(s.args, g[1]) THEN s.args[LastIdx(s.args, g[1])].v.v
                                      ELSE IF HasKey(Pj.globals, g[1]) THEN Pj.globals[LastIdx(Pj.globals, g[1])].v.v
                                      ELSE g[2])

\* the same for the keys the translation rewrites: the ellipsoid of a step is built from the step's own a / rf
\* where it has them and from the pipeline's otherwise; likewise k (as k_0)
RewrittenLocalsWin == (~Refused(Case) /\ ~IsPass) =>
    \A i \in 1..Len(Pj.steps) :
        LET s == Pj.steps[i]
            all == Pj.globals \o s.args
            t == Tidy2(Pj.globals, s.args)
            pick(k) == ValWord((IF HasKey(s.args, k) THEN s.args[LastIdx(s.args, k)] ELSE Pj.globals[LastIdx(Pj.globals, k)]).v)
        IN /\ (HasKey(all, "a") /\ HasKey(all, "rf") /\ ~HasKey(all, "ellps")) =>
                /\ ~HasKey(t, "a") /\ ~HasKey(t, "rf")
                /\ t[LastIdx(t, "ellps")].v = [f |-> "list", s |-> <<pick("a"), pick("rf")>>]
           \* a step with its own a and rf keeps its own ellipsoid whatever ellps the pipeline level gives
           /\ OwnEllipsoid(s.args) =>
                /\ ~HasKey(t, "a") /\ ~HasKey(t, "rf")
                /\ t[LastIdx(t, "ellps")].v = [f |-> "list", s |-> <<ValWord(s.args[LastIdx(s.args, "a")].v),
                                                                       ValWord(s.args[LastIdx(s.args, "rf")].v)>>]
           \* and an ellps from the pipeline level reaches the steps that say nothing about the ellipsoid
           /\ (HasKey(Pj.globals, "ellps") /\ ~HasKey(all, "a") /\ ~HasKey(all, "rf") /\ ~HasKey(s.args, "ellps")) =>
                t[LastIdx(t, "ellps")].v = Pj.globals[LastIdx(Pj.globals, "ellps")].v
           /\ HasKey(all, "k") =>
                /\ ~HasKey(t, "k")
                /\ (~HasKey(all, "k_0") => ValWord(t[LastIdx(t, "k_0")].v) = pick("k"))

\* step order is kept
OrderKept == (~Refused(Case) /\ ~IsPass) =>
    LET t == Translate(Pj)
        names == [i \in 1..Len(Pj.steps) |-> Pj.steps[i].name]
    IN [i \in 1..Len(t) |-> t[i].name] = (IF Pj.ginv THEN Rev(names) ELSE names)

\* PROJ skips step s of P in direction d when: not inverted and (d=F, omit_fwd or d=I, omit_inv);
\* inverted pipeline running d executes the original in the opposite direction
OmitMeaning == (~Refused(Case) /\ ~IsPass) =>
    \A d \in {"F", "I"} :
        LET t == Translate(Pj)
            n == Len(t)
            orig(i) == IF Pj.ginv THEN Pj.steps[n + 1 - i] ELSE Pj.steps[i]
            od == IF Pj.ginv THEN P!Flip(d) ELSE d
        IN \A i \in 1..n : P!Skipped(t[i], d) = ((od = "F" /\ orig(i).of) \/ (od = "I" /\ orig(i).oi))

\* Syntax's canonical text of a definition is Pipeline's DefText in the suffix style
\* (where Pipeline can write the values: plain integers)
CanonAgrees == IsProbeCase => Sx!CanonText(Translate(Pj)) = P!DefText(Translate(Pj), "suffix")

\* ---- what the harness is told ---------------------------------------------
PjChoiceText(l) == LET s == SelectSeq(PjFieldOrder, LAMBDA f : l[f] # PjDefault[f])
                   IN JoinStr([i \in 1..Len(s) |-> s[i] \o "=" \o l[s[i]]], ",")

AppsOf(t) == IF ~t.ok THEN <<>>
             ELSE [i \in 1..2 |-> LET d == IF i = 1 THEN "F" ELSE "I"
                                      r == P!BigApply(t.v, d, PjDataC)
                                  IN [dir |-> d, count |-> r.cnt, data |-> r.data]]
Apps(p) == AppsOf(Tree(p))

\* family "pass": exact expectations where the definition uses the probe operators only
PassExact == \A i \in 1..Len(PassDef) : PassDef[i].name \in ProbeNames
PassChoiceText(def, l) == LET s == SelectSeq(PassFieldOrder, LAMBDA f : l[f] # PassBase(def)[f])
                          IN JoinStr([i \in 1..Len(s) |-> "sx." \o s[i] \o "=" \o l[s[i]]], ",")
EmitPass ==
    IF sl = PassBase(PassDef)
    THEN PrintT(<<"PCASE", ToJson([
            id |-> pc,
            proj |-> PassText(PassDef, sl),
            fam |-> "pass",
            refuse |-> "",
            ref |-> Sx!CanonText(PassDef),
            ok |-> IF PassExact THEN P!Instantiate(PassDef).ok ELSE TRUE,
            apps |-> IF PassExact THEN AppsOf(P!Instantiate(PassDef)) ELSE <<>>,
            data |-> PjDataC,
            resources |-> [n \in DOMAIN PjResC |-> Sx!CanonText(PjResC[n])],
            nsteps |-> Len(PassDef)])>>)
    ELSE PrintT(<<"PTEXT", ToJson([c |-> pc, t |-> PassText(PassDef, sl), ch |-> PassChoiceText(PassDef, sl)])>>)

EmitPj ==
    IF IsPass THEN EmitPass
    ELSE IF pl = PjDefault
    THEN PrintT(<<"PCASE", ToJson([
            id |-> pc,
            proj |-> PjText(PjRender(Pj, PjDefault)),
            fam |-> Case.fam,
            refuse |-> Case.refuse,
            ref |-> IF Refused(Case) THEN "" ELSE RefText(Pj),
            ok |-> IF IsProbeCase THEN Tree(Pj).ok ELSE TRUE,
            apps |-> IF IsProbeCase THEN Apps(Pj) ELSE <<>>,
            data |-> IF Case.fam = "probe" THEN PjDataC ELSE <<>>,
            resources |-> [n \in DOMAIN PjResC |-> Sx!CanonText(PjResC[n])],
            nsteps |-> Len(Pj.steps)])>>)
    ELSE PrintT(<<"PTEXT", ToJson([c |-> pc, t |-> PjText(PjRender(Pj, pl)), ch |-> PjChoiceText(pl)])>>)
=============================================================================
