------------------------------- MODULE MC_C08 -------------------------------
(***************************************************************************)
(* C08: bounded instances of Grid.tla.  One state per (scenario, point).   *)
(* A scenario is a catalogue of grid files, a `grids=` list over it, the   *)
(* kind of correction, the file format and the point lattice to use.       *)
(* The invariants are the property; EmitSc exports, once per scenario, the *)
(* abstract grids (for the harness's encoder) and the specification's      *)
(* expectation at every lattice point.                                     *)
(***************************************************************************)
EXTENDS Grid, Json

CONSTANTS SingleLattice, \* "full" or "dense": lattice of the one-grid scenarios
          Scenarios,   \* sequence of scenario records
          KOff,        \* offsets (eighths of a cell) around every edge
          KIn          \* offsets (eighths of a cell) inside every cell

ScC   == TLCEval(Scenarios)
KOffC == TLCEval(KOff)
KInC  == TLCEval(KIn)

VARIABLES si, p
vars == <<si, p>>
NoPoint == [x |-> -9999, y |-> -9999]

\* ---- catalogue ----------------------------------------------------------
Sub(id, name, parent, n, w, dy, dx, rows, cols, bands, mode) ==
    [id |-> id, name |-> name, parent |-> parent, n |-> n, w |-> w, dy |-> dy, dx |-> dx,
     rows |-> rows, cols |-> cols, bands |-> bands, mode |-> mode, nodes |-> <<>>]
\* layout of a file: sub-grid order, byte order, text layout, spelling of the header(s) (Grid.tla: Spellings)
LayS(order, endian, text, sp) == [order |-> order, endian |-> endian, text |-> text, spell |-> sp]
Lay(order, endian, text) == LayS(order, endian, text, "asc")
Id(n) == [i \in 1..n |-> i]

Grid1(id, rows, cols, dy, dx, bands) ==
    << Sub(id, "G" \o ToString(id), "NONE", (rows - 1) * dy, 0, dy, dx, rows, cols, bands, "v") >>

E(fi)   == [k |-> "grid", fi |-> fi, opt |-> FALSE, present |-> TRUE]
EO(fi)  == [k |-> "grid", fi |-> fi, opt |-> TRUE,  present |-> TRUE]
EMo     == [k |-> "grid", fi |-> 0,  opt |-> TRUE,  present |-> FALSE]
EMr     == [k |-> "grid", fi |-> 0,  opt |-> FALSE, present |-> FALSE]
ENull   == [k |-> "null", fi |-> 0,  opt |-> TRUE,  present |-> FALSE]

Scn(name, kind, fmt, scale, files, lays, list, lattice) ==
    [name |-> name, kind |-> kind, fmt |-> fmt, scale |-> scale,
     files |-> [fi \in 1..Len(files) |-> WithNodes(files[fi])], lays |-> lays,
     list |-> list, lattice |-> lattice]

\* -- one grid, full eighth-cell lattice from two cells outside ------------
SingleL(kind, fmt, rows, cols, dy, dx, endian, text, lattice) ==
    Scn("single", kind, fmt, IF kind = "projected" THEN 1 ELSE 4096,
        << Grid1(1, rows, cols, dy, dx, BandsOf(kind)) >>, << Lay(<<1>>, endian, text) >>,
        << E(1) >>, lattice)
Single(kind, fmt, rows, cols, dy, dx, endian, text) == SingleL(kind, fmt, rows, cols, dy, dx, endian, text, SingleLattice)

SetToSeq(S) == LET RECURSIVE F(_) F(T) == IF T = {} THEN <<>> ELSE LET a == CHOOSE a \in T : TRUE IN <<a>> \o F(T \ {a}) IN F(S)

SinglesDatum(RC) == SetToSeq({Single("datum", "gravsoft", rc[1], rc[2], 8, 8, "le", (rc[1] + rc[2]) % 4) : rc \in RC})
SinglesOther == <<
    Single("geoid", "gravsoft", 2, 3, 8, 8, "le", 1), Single("geoid", "gravsoft", 4, 2, 8, 16, "le", 2),
    Single("deformation", "gravsoft", 2, 3, 8, 8, "le", 3), Single("deformation", "gravsoft", 3, 2, 16, 8, "le", 0),
    Single("projected", "gravsoft", 2, 3, 8, 8, "le", 0), Single("projected", "gravsoft", 3, 4, 8, 16, "le", 1),
    Single("datum", "gravsoft", 3, 3, 8, 16, "le", 2), Single("datum", "gravsoft", 2, 4, 16, 8, "le", 3),
    Single("datum", "ntv2", 2, 3, 8, 8, "le", 0), Single("datum", "ntv2", 3, 2, 8, 16, "be", 0),
    Single("datum", "ntv2", 4, 4, 8, 8, "be", 0) >>

\* -- one grid whose header is spelled with exchanged bounds (Grid.tla: Spellings, Readings) ------
\* the reader refuses it, or decodes a grid that is the file under ONE of the readings (alts in EmitSc)
SpelledScn(kind, fmt, rows, cols, dy, dx, endian, text, sp) ==
    Scn("spelled", kind, fmt, IF kind = "projected" THEN 1 ELSE 4096,
        << Grid1(1, rows, cols, dy, dx, BandsOf(kind)) >>, << LayS(<<1>>, endian, text, sp) >>, << E(1) >>, "dense")
SpelledQ == <<
    SpelledScn("datum", "gravsoft", 3, 4, 8, 8, "le", 0, "ns"), SpelledScn("datum", "gravsoft", 2, 3, 8, 16, "le", 1, "ew"),
    SpelledScn("datum", "gravsoft", 3, 2, 16, 8, "le", 2, "nsew"), SpelledScn("geoid", "gravsoft", 3, 3, 8, 8, "le", 3, "ns"),
    SpelledScn("deformation", "gravsoft", 2, 3, 8, 8, "le", 0, "ew"), SpelledScn("projected", "gravsoft", 3, 4, 8, 8, "le", 1, "nsew"),
    SpelledScn("datum", "ntv2", 3, 4, 8, 8, "le", 0, "ns"), SpelledScn("datum", "ntv2", 2, 3, 8, 16, "be", 0, "ew"),
    SpelledScn("datum", "ntv2", 3, 2, 16, 8, "be", 0, "nsew") >>
SpelledT == SetToSeq({SpelledScn(x[1][1], x[1][2], x[2][1], x[2][2], 8, 8, x[1][3], (x[2][1] + x[2][2]) % 4, x[3])
                      : x \in {<<"datum", "gravsoft", "le">>, <<"geoid", "gravsoft", "le">>, <<"deformation", "gravsoft", "le">>,
                                <<"projected", "gravsoft", "le">>, <<"datum", "ntv2", "le">>, <<"datum", "ntv2", "be">>}
                               \X {<<2, 3>>, <<3, 2>>, <<3, 4>>} \X (Spellings \ {"asc"})})
            \o << SpelledScn("datum", "gravsoft", 4, 3, 8, 16, "le", 1, "ns"), SpelledScn("datum", "ntv2", 4, 3, 16, 8, "le", 0, "nsew") >>

\* -- overlapping grids A, B, C and lists over them ---------------------------
LA(b) == << Sub(1, "A", "NONE", 24, 0, 8, 8, 3, 4, b, "v") >>
LB(b) == << Sub(2, "B", "NONE", 16, 16, 8, 8, 3, 3, b, "v") >>
LC(b) == << Sub(3, "C", "NONE", 30, 30, 8, 8, 2, 2, b, "v") >>
ABC(b) == << LA(b), LB(b), LC(b) >>
ABCLay(endian) == << Lay(<<1>>, endian, 0), Lay(<<1>>, endian, 1), Lay(<<1>>, endian, 2) >>

SeqsUpTo(S, n) == UNION {[1..k -> S] : k \in 1..n}
AlphaFull  == {E(1), E(2), E(3), EO(1), EO(2), EMo, EMr, ENull}
AlphaSmall == {E(1), E(2), EMo, ENull}
AlphaNt    == {E(1), E(2), E(3), EMo, ENull}

ListScn(kind, fmt, endian, l) ==
    Scn("list", kind, fmt, IF kind = "projected" THEN 1 ELSE 4096, ABC(BandsOf(kind)), ABCLay(endian), l, "borders")
Lists(kind, fmt, endian, LS) == SetToSeq({ListScn(kind, fmt, endian, l) : l \in LS})

AlphaTiny == {E(1), E(2), ENull}
ListsQ == Lists("datum", "gravsoft", "le", SeqsUpTo(AlphaFull, 2) \cup [1..3 -> {E(1), E(2), E(3), ENull}])
          \o Lists("geoid", "gravsoft", "le", SeqsUpTo(AlphaTiny, 2))
          \o Lists("deformation", "gravsoft", "le", SeqsUpTo(AlphaTiny, 2))
          \o Lists("projected", "gravsoft", "le", SeqsUpTo(AlphaTiny, 2))
          \o Lists("datum", "ntv2", "be", SeqsUpTo(AlphaTiny, 2))
ListsT == Lists("datum", "gravsoft", "le", SeqsUpTo(AlphaFull, 3))
          \o Lists("geoid", "gravsoft", "le", SeqsUpTo(AlphaFull, 2))
          \o Lists("deformation", "gravsoft", "le", SeqsUpTo(AlphaFull, 2))
          \o Lists("projected", "gravsoft", "le", SeqsUpTo(AlphaFull, 2))
          \o Lists("datum", "ntv2", "be", SeqsUpTo(AlphaNt, 2))

\* -- every grid optional and missing (Grid.tla: EmptyListClause): with and without @null, for every operator
EmptyLists == {<<EMo>>, <<EMo, EMo>>, <<EMo, ENull>>, <<EMo, EMo, ENull>>}
ListsEmpty == Lists("datum", "gravsoft", "le", EmptyLists) \o Lists("geoid", "gravsoft", "le", EmptyLists)
              \o Lists("deformation", "gravsoft", "le", EmptyLists) \o Lists("projected", "gravsoft", "le", EmptyLists)
              \o Lists("datum", "ntv2", "be", EmptyLists)

\* -- grids sharing a border and a corner: D continues A eastwards (common border x = 24), E continues A
\*    southwards (common border y = 8), the corner (24, 8) belongs to all three
LD(b) == << Sub(2, "D", "NONE", 24, 24, 8, 8, 3, 3, b, "v") >>
LE(b) == << Sub(3, "E", "NONE", 8, 0, 8, 8, 2, 4, b, "v") >>
AdjScn(kind, fmt, endian, l) ==
    Scn("adjacent", kind, fmt, IF kind = "projected" THEN 1 ELSE 4096,
        << LA(BandsOf(kind)), LD(BandsOf(kind)), LE(BandsOf(kind)) >>, ABCLay(endian), l, "borders")
Adj(kind, fmt, endian, LS) == SetToSeq({AdjScn(kind, fmt, endian, l) : l \in LS})
AdjPerms == {l \in [1..3 -> {E(1), E(2), E(3)}] : \A i, j \in 1..3 : i # j => l[i] # l[j]}
AdjQ == Adj("datum", "gravsoft", "le", AdjPerms \cup {<<E(2), E(1), ENull>>})
        \o Adj("projected", "gravsoft", "le", {<<E(1), E(2), E(3)>>, <<E(3), E(2), E(1)>>})
        \o Adj("datum", "ntv2", "be", {<<E(1), E(2), E(3)>>, <<E(3), E(2), E(1)>>, <<E(2), E(3), E(1)>>})
AdjT == Adj("datum", "gravsoft", "le", AdjPerms \cup {<<E(2), E(1), ENull>>, <<E(3), E(1)>>, <<E(2), E(3)>>})
        \o Adj("geoid", "gravsoft", "le", AdjPerms) \o Adj("deformation", "gravsoft", "le", AdjPerms)
        \o Adj("projected", "gravsoft", "le", AdjPerms) \o Adj("datum", "ntv2", "be", AdjPerms) \o Adj("datum", "ntv2", "le", AdjPerms)

\* -- NTv2 trees: root R (cell 32), children K, K2 (cell 16), grandchild G (cell 8), second root R2
TR  == Sub(1, "R",  "NONE", 64, 0, 32, 32, 3, 3, 2, "v")
TR2 == Sub(5, "R2", "NONE", 64, 64, 32, 32, 3, 2, 2, "v")
TK  == Sub(2, "K",  "R",  32, 0, 16, 16, 3, 3, 2, "v")      \* shares the root's south and west border
TK2 == Sub(3, "K2", "R",  64, 32, 16, 16, 3, 3, 2, "v")     \* shares the root's north and east border, touches K in one point
TG  == Sub(4, "G",  "K",  16, 16, 8, 8, 3, 3, 2, "v")      \* one cell of K: shares K's east and south border
\* a sibling of K that OVERLAPS it (x 0..32, y 16..32) and touches G along y = 16: forbidden by the NTv2
\* specification, not by the statement; every end of a chain of containing sub-grids is admissible (Grid.tla: ChainEnds)
TK3 == Sub(6, "K3", "R",  64, 0, 16, 16, 4, 4, 2, "v")
\* a sibling of K that shares K's northern border (x 0..32, y 32..64): the parent's west half is tiled by K and K4
TK4 == Sub(7, "K4", "R",  64, 0, 16, 16, 3, 3, 2, "v")
\* a consistent tree: the child densifies the central cell of the root
CR  == Sub(1, "R",  "NONE", 48, 0, 16, 16, 4, 4, 2, "root")
CK  == Sub(2, "K",  "R",    32, 16, 8, 8, 3, 3, 2, "cons")

Perms(n) == {q \in [1..n -> 1..n] : \A i, j \in 1..n : i # j => q[i] # q[j]}
TreeScn(subs, order, endian, scale) ==
    Scn("tree", "datum", "ntv2", scale, << subs >>, << Lay(order, endian, 0) >>, << E(1) >>, "edges")
Trees(subs, PS, scale) ==
    SetToSeq({TreeScn(subs, q, IF q[1] % 2 = 1 THEN "le" ELSE "be", scale) : q \in PS})
         \o SetToSeq({TreeScn(subs, q, IF q[1] % 2 = 1 THEN "be" ELSE "le", scale) : q \in PS})

TreesT == Trees(<<TR>>, Perms(1), 4096) \o Trees(<<TR, TK>>, Perms(2), 4096) \o Trees(<<TR, TK, TK2>>, Perms(3), 4096)
          \o Trees(<<TR, TK, TG>>, Perms(3), 4096) \o Trees(<<TR, TK, TK2, TG>>, Perms(4), 4096)
          \o Trees(<<TR, TR2, TK>>, Perms(3), 4096) \o Trees(<<CR, CK>>, Perms(2), 16384)
          \o Trees(<<TR, TK, TK3>>, Perms(3), 4096) \o Trees(<<TR, TK, TK3, TG>>, Perms(4), 4096)
          \o Trees(<<TR, TK, TK4>>, Perms(3), 4096) \o Trees(<<TR, TK, TK4, TG>>, Perms(4), 4096)
\* quick: every shape, a child before its parent and after it, the grandchild first
TreesQ == Trees(<<TR, TK>>, Perms(2), 4096)
          \o Trees(<<TR, TK, TG>>, {<<3, 2, 1>>, <<1, 2, 3>>}, 4096)
          \o Trees(<<TR, TK, TK2, TG>>, {<<4, 3, 2, 1>>, <<2, 1, 4, 3>>}, 4096)
          \o Trees(<<TR, TR2, TK>>, {<<3, 2, 1>>}, 4096) \o Trees(<<CR, CK>>, {<<2, 1>>}, 16384)
          \* overlapping siblings in both file orders, before and after the root, with a grandchild
          \o Trees(<<TR, TK, TK3>>, {<<1, 2, 3>>, <<1, 3, 2>>, <<3, 2, 1>>}, 4096)
          \o Trees(<<TR, TK, TK3, TG>>, {<<1, 2, 3, 4>>, <<4, 3, 2, 1>>}, 4096)
          \* siblings sharing an edge, in both file orders, before and after the root
          \o Trees(<<TR, TK, TK4>>, {<<1, 2, 3>>, <<1, 3, 2>>, <<3, 2, 1>>, <<2, 3, 1>>}, 4096)

KOffQ == {-5, -3, 0, 3, 5}
KOffT == {-5, -3, -2, -1, 0, 1, 2, 3, 5}
KInQ  == {3}
KInT  == {1, 4, 7}
RC24 == (2..4) \X (2..4)
ScenQ == << SingleL("datum", "gravsoft", 2, 3, 8, 8, "le", 1, "full") >>
         \o SinglesDatum({<<2, 2>>, <<3, 2>>, <<4, 4>>}) \o SinglesOther \o ListsQ \o TreesQ
         \o SpelledQ \o ListsEmpty \o AdjQ
ScenT == SinglesDatum(RC24) \o SinglesOther \o ListsT \o TreesT \o SpelledT \o ListsEmpty \o AdjT

\* ---- lattice --------------------------------------------------------------
AllSubs(sc) == {<<fi, i>> : fi \in 1..Len(sc.files), i \in 1..4} \cap
               {<<fi, i>> \in (1..Len(sc.files)) \X (1..4) : i <= Len(sc.files[fi])}
SubOf(sc, fs) == sc.files[fs[1]][fs[2]]

OnMarginEdge(g, q) == \/ 8 * q.x = 8 * g.w - 4 * g.dx \/ 8 * q.x = 8 * East(g) + 4 * g.dx
                      \/ 8 * q.y = 8 * South(g) - 4 * g.dy \/ 8 * q.y = 8 * g.n + 4 * g.dy

AxisVals(lo, hi, d, cells, lattice) ==
    LET KO == IF lattice = "dense" THEN {-5, -3, -1, 0, 1, 3, 5} ELSE KOffC
        KI == IF lattice = "dense" THEN {2, 4, 5} ELSE IF lattice = "borders" THEN {} ELSE KInC
    IN {lo + k * (d \div 8) : k \in KO} \cup {hi + k * (d \div 8) : k \in KO}
       \cup {lo + j * d + o * (d \div 8) : j \in 0..(cells - 1), o \in KI}

PointsOf(sc) ==
    LET XS == IF sc.lattice = "full"
              THEN LET g == sc.files[1][1] IN {g.w + k * (g.dx \div 8) : k \in (-16)..(8 * (g.cols - 1) + 16)}
              ELSE UNION {LET g == SubOf(sc, fs) IN AxisVals(g.w, East(g), g.dx, g.cols - 1, sc.lattice) : fs \in AllSubs(sc)}
        YS == IF sc.lattice = "full"
              THEN LET g == sc.files[1][1] IN {South(g) + k * (g.dy \div 8) : k \in (-16)..(8 * (g.rows - 1) + 16)}
              ELSE UNION {LET g == SubOf(sc, fs) IN AxisVals(South(g), g.n, g.dy, g.rows - 1, sc.lattice) : fs \in AllSubs(sc)}
    IN {q \in [x : XS, y : YS] :
            \* points exactly on the outer edge of a half-cell margin are not generated
            \A fs \in AllSubs(sc) : SubOf(sc, fs).parent = "NONE" => ~OnMarginEdge(SubOf(sc, fs), q)}

\* ---- behaviour --------------------------------------------------------------
\* (the scenario is chosen by an action, not in Init, so that TLC's workers share the work)
Init == si = 0 /\ p = NoPoint
Choose == si = 0 /\ si' \in 1..Len(ScC) /\ UNCHANGED p
Pick == /\ si # 0 /\ p = NoPoint /\ \E q \in PointsOf(ScC[si]) : p' = q
        /\ UNCHANGED si
Next == Choose \/ Pick
Spec == Init /\ [][Next]_vars

Sc == ScC[si]
AtPoint == p # NoPoint
AtScen == si # 0 /\ p = NoPoint

\* ---- the property, as invariants -------------------------------------------
\* 1. node values are reproduced at the nodes
NodeInv == AtScen =>
    \A fs \in AllSubs(Sc) : LET f == Sc.files[fs[1]] i == fs[2] g == f[i] IN
        \A r \in 0..(g.rows - 1), c \in 0..(g.cols - 1) :
            LET a == AtSub(f, i, [x |-> g.w + c * g.dx, y |-> g.n - r * g.dy], 0) IN
            a.ok /\ \A b \in 1..g.bands : a.num[b] = Den(g) * Node(f, i, r, c, b)

\* 2. inside a cell the value lies within the range of the four corners
RangeInv == AtPoint =>
    \A fs \in AllSubs(Sc) : LET f == Sc.files[fs[1]] i == fs[2] g == f[i] IN
        Contains(g, p, 0) =>
            LET r == CellRow(g, p.y) c == CellCol(g, p.x) a == AtSub(f, i, p, 0) IN
            \A b \in 1..g.bands :
                LET C4 == {Node(f, i, r, c, b), Node(f, i, r, c + 1, b), Node(f, i, r + 1, c, b), Node(f, i, r + 1, c + 1, b)}
                IN a.num[b] >= Den(g) * MinOf(C4) /\ a.num[b] <= Den(g) * MaxOf(C4)

\* 3. the two one-sided evaluations agree on every shared cell edge (also on
\*    its continuation through the margin)
ContinuityInv == AtPoint =>
    \A fs \in AllSubs(Sc) : LET f == Sc.files[fs[1]] i == fs[2] g == f[i] IN
        Contains(g, p, 4) =>
            LET r == CellRow(g, p.y) c == CellCol(g, p.x) IN
            /\ ((p.x - g.w) % g.dx = 0 /\ p.x > g.w /\ p.x < East(g)) =>
                  LET cc == (p.x - g.w) \div g.dx IN
                  \A b \in 1..g.bands : BilinF(f, i, r, cc - 1, p.x, p.y, b) = BilinF(f, i, r, cc, p.x, p.y, b)
            /\ ((g.n - p.y) % g.dy = 0 /\ p.y < g.n /\ p.y > South(g)) =>
                  LET rr == (g.n - p.y) \div g.dy IN
                  \A b \in 1..g.bands : BilinF(f, i, rr - 1, c, p.x, p.y, b) = BilinF(f, i, rr, c, p.x, p.y, b)

\* 4. along axis-parallel lines the value is linear within a cell and
\*    continues linearly through the border into the margin
\* x1 < x2 lie in one closed cell (the outermost cells extend through the margin)
OneCellX(g, x1, x2) == LET c == CellCol(g, x1) IN c = g.cols - 2 \/ x2 <= g.w + (c + 1) * g.dx
\* y1 > y2 (north to south)
OneCellY(g, y1, y2) == LET r == CellRow(g, y1) IN r = g.rows - 2 \/ y2 >= g.n - (r + 1) * g.dy
StepX(g) == g.dx \div 8
StepY(g) == g.dy \div 8
LinearInv == AtPoint =>
    \A fs \in AllSubs(Sc) : LET f == Sc.files[fs[1]] i == fs[2] g == f[i] IN
        /\ LET a == [x |-> p.x - StepX(g), y |-> p.y]  b == [x |-> p.x + StepX(g), y |-> p.y] IN
           (Contains(g, a, 4) /\ Contains(g, b, 4) /\ OneCellX(g, a.x, b.x)) =>
              LET va == AtSub(f, i, a, 4).num vb == AtSub(f, i, b, 4).num vp == AtSub(f, i, p, 4).num IN
              \A k \in 1..g.bands : va[k] + vb[k] = 2 * vp[k]
        /\ LET a == [x |-> p.x, y |-> p.y - StepY(g)]  b == [x |-> p.x, y |-> p.y + StepY(g)] IN
           (Contains(g, a, 4) /\ Contains(g, b, 4) /\ OneCellY(g, b.y, a.y)) =>
              LET va == AtSub(f, i, a, 4).num vb == AtSub(f, i, b, 4).num vp == AtSub(f, i, p, 4).num IN
              \A k \in 1..g.bands : va[k] + vb[k] = 2 * vp[k]

\* the margin only adds points, it never changes a value
MarginInv == AtPoint =>
    \A fs \in AllSubs(Sc) : LET f == Sc.files[fs[1]] i == fs[2] IN
        Contains(f[i], p, 0) => AtSub(f, i, p, 0) = AtSub(f, i, p, 4)

\* 5. first hit among several grids, then first within the margin, then null / none
FirstHitInv == AtPoint =>
    LET eff == EffR2(Sc.list)
        r   == GridsAt(Sc.files, eff, HasNull(Sc.list), p)
        In(j, m) == FContains(Sc.files[eff[j].fi], p, m)
    IN /\ r.out = "grid0" => In(r.i, 0) /\ \A j \in 1..(r.i - 1) : ~In(j, 0)
       /\ r.out = "grid4" => In(r.i, 4) /\ (\A j \in 1..Len(eff) : ~In(j, 0)) /\ \A j \in 1..(r.i - 1) : ~In(j, 4)
       /\ r.out \in {"null", "none"} => \A j \in 1..Len(eff) : ~In(j, 4)
       /\ r.out = "null" <=> (HasNull(Sc.list) /\ r.i = 0)
       /\ r.i # 0 => r.val.ok

\* 6. within a file the deepest sub-grid containing the point serves it; the file order is irrelevant
RECURSIVE Ancestors(_, _)
Ancestors(f, i) == IF f[i].parent = "NONE" THEN {} ELSE LET j == IndexOf(f, f[i].parent) IN {j} \cup Ancestors(f, j)
DeepestInv == AtPoint =>
    \A fi \in 1..Len(Sc.files) : LET f == Sc.files[fi] i == FindGrid(f, p, 0) IN
        /\ i # 0 => /\ Contains(f[i], p, 0)
                    /\ \A j \in Children(f, i) : ~Contains(f[j], p, 0)
                    /\ \A j \in Ancestors(f, i) : Contains(f[j], p, 0)
        /\ i = 0 => \A j \in 1..Len(f) : ~Contains(f[j], p, 0)
        \* permuting the file does not change the answer
        /\ LET q == Sc.lays[fi].order
               fq == [k \in 1..Len(f) |-> f[q[k]]]
               iq == FindGrid(fq, p, 4)
               io == FindGrid(f, p, 4)
           IN Ambiguous(f, p, 4) \/ (iq = 0 /\ io = 0) \/ (iq # 0 /\ io # 0 /\ fq[iq].name = f[io].name)

\* 7. consistent trees are continuous across sub-grid borders
OnBorder(g, q) == Contains(g, q, 0) /\ (q.x = g.w \/ q.x = East(g) \/ q.y = g.n \/ q.y = South(g))
SubgridContinuityInv == AtPoint =>
    \A fi \in 1..Len(Sc.files) : LET f == Sc.files[fi] IN
        \A j \in 1..Len(f) : (f[j].mode = "cons" /\ OnBorder(f[j], p)) =>
            /\ SameVal(AtSub(f, j, p, 0), AtSub(f, IndexOf(f, f[j].parent), p, 0))
            /\ ~Ambiguous(f, p, 4)

\* 8. conventions: the inverse direction takes the forward correction back,
\*    every band feeds exactly one element
ConvInv == AtScen =>
    LET cv == Conv(Sc.kind, Sc.fmt)
        v  == [ok |-> TRUE, den |-> 1, num |-> [b \in 1..BandsOf(Sc.kind) |-> 7 * b + 1]]
    IN /\ \A e \in 1..3 : Delta(Sc.kind, Sc.fmt, v, "F")[e] + Delta(Sc.kind, Sc.fmt, v, "I")[e] = 0
       /\ {cv.el[e][1] : e \in 1..3} \ {0} = 1..BandsOf(Sc.kind)
       /\ \A e \in 1..3 : cv.el[e][2] \in (IF cv.el[e][1] = 0 THEN {0} ELSE {1, -1})
       \* the operator convention is the decoded value times the operator's forward sign
       /\ \A e \in 1..Len(Dec(Sc.kind, Sc.fmt)) :
             LET d == Dec(Sc.kind, Sc.fmt)[e]
                 t == IF Sc.kind \in {"geoid", "projected"} THEN 3 ELSE e
             IN cv.el[t] = <<d[1], d[2] * OpSign(Sc.kind)>>
       /\ Sc.kind \in {"geoid", "projected"} => cv.el[3] = <<1, -1>>           \* heights are subtracted forward
       /\ Sc.kind = "datum" /\ Sc.fmt = "gravsoft" => Delta(Sc.kind, Sc.fmt, v, "F") = <<v.num[2], v.num[1], 0>>

\* 9. every grid optional and missing: no grid is left, every point is outside all grids (fails, or passes
\*    unchanged with @null); the catalogue holds such lists, with and without @null, for every kind / format
EmptyListInv == AtPoint => EmptyListClause(Sc.files, Sc.list, p)
EmptyListWitness == (AtScen /\ si = 1) =>
    \A kf \in {<<"datum", "gravsoft">>, <<"geoid", "gravsoft">>, <<"deformation", "gravsoft">>, <<"projected", "gravsoft">>, <<"datum", "ntv2">>} :
        \A withNull \in BOOLEAN :
            \E i \in 1..Len(ScC) : /\ ScC[i].kind = kf[1] /\ ScC[i].fmt = kf[2]
                                   /\ AllOptionalMissing(ScC[i].list) /\ HasNull(ScC[i].list) = withNull

\* 10. a header spelled with exchanged bounds: under every reading the grid has the extent of the header,
\*     holds exactly the node values of the file, reproduces them at its nodes, and the readings differ
\*     from each other (so that the replay can tell which one - if any - the reader follows)
Spelled(sc) == sc.lays[1].spell # "asc"
ScUnder(sc, rd) == [sc EXCEPT !.files = << << Under(sc.files[1][1], rd) >> >>]
SpellingInv == (AtScen /\ Spelled(Sc)) =>
    LET g == Sc.files[1][1]  RD == Readings(Sc.lays[1].spell) IN
    /\ Len(Sc.files) = 1 /\ Len(Sc.files[1]) = 1 /\ Cardinality(RD) \in {2, 4} /\ <<"swap", "swap">> \in RD
    /\ Len(ReadingSeq(Sc.lays[1].spell)) = Cardinality(RD)
    /\ \A rd \in RD : LET h == Under(g, rd)  f == << h >> IN
          /\ [h EXCEPT !.nodes = <<>>] = [g EXCEPT !.nodes = <<>>]
          /\ \A r \in 0..(h.rows - 1), c \in 0..(h.cols - 1) :
                LET a == AtSub(f, 1, [x |-> h.w + c * h.dx, y |-> h.n - r * h.dy], 0)
                    rr == IF rd[1] = "scan" THEN h.rows - 1 - r ELSE r
                    cc == IF rd[2] = "scan" THEN h.cols - 1 - c ELSE c
                IN a.ok /\ \A b \in 1..h.bands : a.num[b] = Den(h) * Node(f, 1, r, c, b) /\ Node(f, 1, r, c, b) = g.nodes[rr + 1][cc + 1][b]
          /\ \A rd2 \in RD \ {rd} : Under(g, rd2).nodes # h.nodes

\* 11. overlapping siblings: the reference's own choice is one of the admissible ends, and there are several
SiblingInv == AtPoint =>
    \A fi \in 1..Len(Sc.files) : LET f == Sc.files[fi] IN
        /\ InSiblingOverlap(f, p) => /\ Cardinality(ChainEnds(f, p)) >= 2
                                     /\ FindGrid(f, p, 0) \in ChainEnds(f, p)
                                     /\ \A i \in ChainEnds(f, p) : f[i].parent # "NONE"
        \* a shared edge: the two siblings and nothing else; the parent's value there differs from both (else a
        \* reader that falls back to the parent could not be told from one that does not)
        /\ OnSharedEdge(f, p) => /\ Cardinality(ChainEnds(f, p)) = 2
                                  /\ FindGrid(f, p, 0) \in ChainEnds(f, p)
                                  /\ \A i \in ChainEnds(f, p) :
                                        /\ f[i].parent # "NONE"
                                        /\ ~SameVal(AtSub(f, i, p, 0), AtSub(f, IndexOf(f, f[i].parent), p, 0))

\* the catalogue itself is well formed (children inside parents, aligned)
WellFormedInv == AtScen =>
    \A fs \in AllSubs(Sc) : LET f == Sc.files[fs[1]] g == f[fs[2]] IN
        /\ g.rows >= 2 /\ g.cols >= 2 /\ g.dx % 8 = 0 /\ g.dy % 8 = 0
        /\ g.parent # "NONE" =>
              LET h == f[IndexOf(f, g.parent)] IN
              /\ g.w >= h.w /\ East(g) <= East(h) /\ g.n <= h.n /\ South(g) >= South(h)
              /\ (g.w - h.w) % h.dx = 0 /\ (h.n - g.n) % h.dy = 0 /\ h.dx % g.dx = 0 /\ h.dy % g.dy = 0

\* ---- export -----------------------------------------------------------------
\* expectation at point q: <<x, y, flag, file, inner, den, n1..nb [, gN, gE]>>
\* flag 0: fails (no grid, no null)  1: passes unchanged (null grid)
\*      2: inside the selected grid   3: only within its margin   9: not compared
Effective(l) == EffR1(l)
InnerAt(sc, q) ==
    \A fs \in AllSubs(sc) : LET g == SubOf(sc, fs) IN
        (q.x - g.w) % (g.dx \div 2) # 0 /\ (g.n - q.y) % (g.dy \div 2) # 0

Row(sc, q) ==
    LET e1 == EffR1(sc.list)  e2 == EffR2(sc.list)
        r1 == GridsAt(sc.files, e1, HasNull(sc.list), q)
        r2 == GridsAt(sc.files, e2, HasNull(sc.list), q)
        f1 == IF r1.i = 0 THEN 0 ELSE e1[r1.i].fi
        f2 == IF r2.i = 0 THEN 0 ELSE e2[r2.i].fi
        amb == \/ r1.out # r2.out \/ f1 # f2
               \/ (f1 # 0 /\ Ambiguous(sc.files[f1], q, 4))
        flag == IF amb THEN 9 ELSE CASE r1.out = "none" -> 0 [] r1.out = "null" -> 1 [] r1.out = "grid0" -> 2 [] r1.out = "grid4" -> 3
        v == r1.val
        nb == BandsOf(sc.kind)
        nums == IF f1 = 0 THEN [b \in 1..nb |-> 0] ELSE v.num
        grad == IF sc.kind = "geoid" /\ f1 # 0
                THEN LET f == sc.files[f1] i == FindGrid(f, q, 4) g == f[i]
                         r == CellRow(g, q.y) c == CellCol(g, q.x)
                     IN << BilinF(f, i, r, c, q.x, q.y + 1, 1) - BilinF(f, i, r, c, q.x, q.y, 1),
                           BilinF(f, i, r, c, q.x + 1, q.y, 1) - BilinF(f, i, r, c, q.x, q.y, 1) >>
                ELSE IF sc.kind = "geoid" THEN <<0, 0>> ELSE <<>>
    IN <<q.x, q.y, flag, f1, IF InnerAt(sc, q) THEN 1 ELSE 0, IF f1 = 0 THEN 1 ELSE v.den>> \o nums \o grad

NodesOf(f, i) == f[i].nodes

FileJson(sc, fi) ==
    [subs |-> [i \in 1..Len(sc.files[fi]) |->
                 LET g == sc.files[fi][i] IN
                 [name |-> g.name, parent |-> g.parent, n |-> g.n, w |-> g.w, dy |-> g.dy, dx |-> g.dx,
                  rows |-> g.rows, cols |-> g.cols, bands |-> g.bands, nodes |-> NodesOf(sc.files[fi], i)]],
     order |-> sc.lays[fi].order, endian |-> sc.lays[fi].endian, text |-> sc.lays[fi].text, spell |-> sc.lays[fi].spell]

\* overlapping siblings: <<x, y, <<den, n1, n2>> per admissible sub-grid>>
OneOf(sc) ==
    IF sc.name # "tree" THEN {} ELSE
    LET f == sc.files[1] IN
    {<<q.x, q.y, SetToSeq({<<Den(f[i])>> \o AtSub(f, i, q, 0).num : i \in ChainEnds(f, q)})>>
        : q \in {q \in PointsOf(sc) : InSiblingOverlap(f, q) \/ OnSharedEdge(f, q)}}

EmitSc == AtScen =>
    PrintT(<<"SCEN", ToJson([
        id |-> si, name |-> Sc.name, kind |-> Sc.kind, fmt |-> Sc.fmt, scale |-> Sc.scale,
        files |-> [fi \in 1..Len(Sc.files) |-> FileJson(Sc, fi)],
        list |-> [k \in 1..Len(Sc.list) |-> [k |-> Sc.list[k].k, fi |-> Sc.list[k].fi,
                     opt |-> Sc.list[k].opt, present |-> Sc.list[k].present]],
        refused |-> IF RefusedR1(Sc.list) # RefusedR2(Sc.list) THEN 9 ELSE IF RefusedR1(Sc.list) THEN 1 ELSE 0,
        effective |-> [k \in 1..Len(EffR1(Sc.list)) |-> EffR1(Sc.list)[k].fi],
        all_optional_missing |-> AllOptionalMissing(Sc.list),
        spelled |-> Spelled(Sc),
        \* a spelled header: refused, or the grid of ONE of these readings (expectation at every point per reading)
        alts |-> IF Spelled(Sc)
                 THEN [k \in 1..Len(ReadingSeq(Sc.lays[1].spell)) |->
                         LET rd == ReadingSeq(Sc.lays[1].spell)[k] IN
                         [reading |-> rd, pts |-> {Row(ScUnder(Sc, rd), q) : q \in PointsOf(Sc)}]]
                 ELSE <<>>,
        oneof |-> OneOf(Sc),
        \* operators for which only totality is required on this kind of grid
        cross |-> IF Sc.name = "single" THEN CrossOps(Sc.kind) ELSE {},
        null |-> HasNull(Sc.list),
        conv |-> Conv(Sc.kind, Sc.fmt), dec |-> Dec(Sc.kind, Sc.fmt), unit |-> UnitFactor(Conv(Sc.kind, Sc.fmt).unit),
        deform |-> [dt |-> Duration(TRUE, 1000, 0, 0), t_epoch |-> 2000, t_obs |-> 2010, duration |-> Duration(FALSE, 0, 2000, 2010)],
        pts |-> {Row(Sc, q) : q \in PointsOf(Sc)}
    ])>>)
=============================================================================
