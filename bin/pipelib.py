"""Shared by C01/C03/C04: turn Pipeline.tla REPLAY records into script behaviours."""
import re

MODS = {"inv", "omit_fwd", "omit_inv", "inv=true", "omit_fwd=true", "omit_inv=true"}

# relational substitution: probe step -> built-in operator (numerics are never an oracle here)
SUBST = {
    "t_add e=1 c=1": "utm zone=32",
    "t_add e=1 c=5": "lcc lat_1=40 lat_2=60 lon_0=10 ellps=intl",
    "t_add e=1 c=2": "merc lat_ts=56 ellps=bessel",
    "t_dbl e=1": "cart ellps=intl",
    "t_add e=2 c=3": "helmert x=10 y=-20 z=30 rx=0.1 ry=-0.2 rz=0.3 s=2 convention=position_vector",
    "t_oneway e=3": "curvature gaussian ellps=GRS80",
    "t_oneway2 e=3": "curvature prime ellps=GRS80",
    "t_failodd": "tmerc lon_0=9 k_0=0.9996 x_0=500000",
    "noop": "noop",
}
GEO = [[0.2, 0.95, 100.5, 2020.5], [0.17, 1.01, 0.25, 2021.5], [-0.4, -0.7, 12.5, 2000.5]]


def subst_step(step):
    """Replace the probe operator of one step text by its built-in stand-in, keeping modifiers in place."""
    toks = step.split()
    core = [t for t in toks if t not in MODS]
    key = " ".join(core)
    if key not in SUBST:
        return step  # macro invocation or unknown: unchanged
    out, done = [], False
    for t in toks:
        if t in MODS:
            out.append(t)
        elif not done:
            out.append(SUBST[key])
            done = True
    return " ".join(out)


def subst_def(text):
    parts = re.split(r"(\s*[|<>]\s*)", text)
    return "".join(p if re.fullmatch(r"\s*[|<>]\s*", p) else (subst_step(p) if p.strip() else p) for p in parts)


def to_behaviours(i, r, ctx="minimal", relational=True, extra_calls=None):
    """One exact behaviour (probe basis) and one relational behaviour (built-in stand-ins)."""
    out = []
    calls = [{"do": "op", "def": r["def"], "as": "h", "ok": bool(r["ok"])}]
    plan_handles = {}
    for a in r["apps"]:
        calls.append({"do": "apply", "h": "h", "dir": a["dir"], "data": r["data"],
                      "expect": {"count": a["count"], "data": a["data"], "plan": a["plan"]}})
        route = []
        for pe in a["plan"]:
            hn = plan_handles.get(pe["def"])
            if hn is None:
                hn = "p%d" % len(plan_handles)
                plan_handles[pe["def"]] = hn
                calls.append({"do": "op", "def": pe["def"], "as": hn, "ok": True})
            route.append([hn, pe["dir"]])
        calls.append({"do": "same", "a": [["h", a["dir"]]], "b": route, "data": r["data"]})
    if r.get("expansion") and r["ok"]:
        # "a macro means its expansion": the literal flat definition must behave identically
        calls.append({"do": "op", "def": r["expansion"], "as": "x", "ok": True})
        for d in ("F", "I"):
            calls.append({"do": "same", "a": [["h", d]], "b": [["x", d]], "data": r["data"]})
    if extra_calls:
        calls += extra_calls
    out.append({"id": "%d" % i, "ctx": ctx, "resources": r["resources"], "calls": calls, "kind": "exact"})
    if relational and r["ok"]:
        res2 = {k: subst_def(v) for k, v in r["resources"].items()}
        calls2 = [{"do": "op", "def": subst_def(r["def"]), "as": "h", "ok": None}]
        ph = {}
        for a in r["apps"]:
            route = []
            for pe in a["plan"]:
                d2 = subst_step(pe["def"])
                hn = ph.get(d2)
                if hn is None:
                    hn = "p%d" % len(ph)
                    ph[d2] = hn
                    calls2.append({"do": "op", "def": d2, "as": hn, "ok": None})
                route.append([hn, pe["dir"]])
            calls2.append({"do": "same", "a": [["h", a["dir"]]], "b": route, "data": GEO})
        if r.get("expansion"):
            calls2.append({"do": "op", "def": subst_def(r["expansion"]), "as": "x", "ok": None})
            for d in ("F", "I"):
                calls2.append({"do": "same", "a": [["h", d]], "b": [["x", d]], "data": GEO})
        out.append({"id": "%dr" % i, "ctx": ctx, "resources": res2, "calls": calls2, "kind": "relational"})
    if relational and not r["ok"] and r.get("why") == "noninvertible":
        # `inv` on a step without an inverse: the one-way built-ins must refuse it as well (their gamuts do
        # not list the flag; silently ignoring the modifier is neither refusal nor exchanged directions)
        res2 = {k: subst_def(v) for k, v in r["resources"].items()}
        out.append({"id": "%dr" % i, "ctx": ctx, "resources": res2, "kind": "relational",
                    "calls": [{"do": "op", "def": subst_def(r["def"]), "as": "h", "ok": False}]})
    return out


# ---- C04: the same macro structures with a built-in whose parameter is the context's own global ------
# The probe's `c` becomes cart's `ellps` (which every context also supplies as a global, ellps=GRS80):
# invocation arguments, macro parameters and defaults then compete with a real global.
ELLPS = {1: "GRS80", 2: "intl", 3: "bessel", 4: "clrk66", 5: "WGS84", 6: "airy", 7: "krass", 8: "fschr60", 9: "helmert"}


def subst_ellps(text):
    t = re.sub(r"\be=(\(\d+\)|\d+)", "", text)
    t = re.sub(r"\bc=", "ellps=", t)
    t = t.replace("t_add", "cart").replace("t_dbl", "noop")
    t = re.sub(r"(?<==)(\d+)\b", lambda m: ELLPS[int(m.group(1))], t)
    t = re.sub(r"\((\d+)\)", lambda m: "(" + ELLPS[int(m.group(1))] + ")", t)
    return re.sub(r"[ ]+", " ", t).replace(" |", " |").strip()


def ellps_behaviour(i, r, ctx="minimal"):
    """invocation vs literal expansion, with cart/ellps in place of t_add/c (relational only)"""
    res2 = {k: subst_ellps(v) for k, v in r["resources"].items()}
    calls = [{"do": "op", "def": subst_ellps(r["def"]), "as": "h", "ok": bool(r["ok"])}]
    if r["ok"] and r.get("expansion"):
        calls.append({"do": "op", "def": subst_ellps(r["expansion"]), "as": "x", "ok": True})
        for d in ("F", "I"):
            calls.append({"do": "same", "a": [["h", d]], "b": [["x", d]], "data": GEO})
    return {"id": "%de" % i, "ctx": ctx, "resources": res2, "calls": calls, "kind": "ellps"}


# ---- reporting: stable, layout-independent signatures; minimal reproductions of every kind first ---------
def canonical(text):
    """A definition with layout and arguments taken out: per step the operator / macro name and its modifiers in a
    fixed order (`inv t_add e=1 c=1 omit_fwd=true` and `t_add e=1 c=1 inv omit_fwd` are the same shape)"""
    steps = []
    parts = re.split(r"([|<>])", text)
    sep = ""
    for p in parts:
        if p in ("|", "<", ">"):
            sep = p
            continue
        toks = p.split()
        if not toks:
            continue
        mods = {t.split("=")[0] for t in toks if t in MODS}
        if sep == "<":
            mods.add("omit_fwd")
        if sep == ">":
            mods.add("omit_inv")
        core = [t for t in toks if t not in MODS]
        name = core[0] if core else ""
        steps.append(" ".join([name] + [m for m in ("inv", "omit_fwd", "omit_inv") if m in mods]))
    return " | ".join(steps)


def family(text):
    """The family of the first macro invoked in a definition: `m:fd_a_z z=3` -> `m:fd`"""
    for t in re.split(r"[\s|<>]+", text):
        if ":" in t and "=" not in t:
            return t.split("_")[0]
    return canonical(text)


def ordered(mism, sig):
    """Mismatches in reporting order: per signature the shortest definition, the kinds of failure taking turns
    (the report shows ten: they should not all be layouts of one case); then everything else"""
    best = {}
    for m in mism:
        k = sig(m)
        d = m["behaviour"]["calls"][0]["def"]
        if k not in best or len(d) < len(best[k]["behaviour"]["calls"][0]["def"]):
            best[k] = m
    groups = {}
    for k in sorted(best, key=lambda k: (len(best[k]["behaviour"]["calls"][0]["def"]), k)):
        m = best[k]
        groups.setdefault((m["behaviour"].get("kind"), m["fails"][0]["what"]), []).append(m)
    first = []
    while any(groups.values()):
        for g in sorted(groups):
            if groups[g]:
                first.append(groups[g].pop(0))
    chosen = {id(m) for m in first}
    return first + [m for m in mism if id(m) not in chosen]
