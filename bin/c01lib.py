"""C01, operator catalogue part (the "validated assumption").

roundtrip_cases(tier, seed, res): TLC enumerates configuration x point x order over spec/RoundTrip.tla
(MC_C01_rt_q / MC_C01_rt_t), the harness (gvh_fail roundtrip) evaluates every round trip on the real operators
and compares the residual ON THE GROUND with the accuracy class of the C01 statement.  Adds to `res`
(a vlib.Result owned by the caller): the TLC run, assumption_evaluations, one violation per failing
(family, parameter shape, order, kind of failure) with the worst case as minimal reproduction, and
res.extra["roundtrip"] with the counts per operator family."""
import json, os
import vlib

BIN = "gvh_fail"


def roundtrip_cases(tier, seed, res):
    vlib.build_harness(BIN)
    cfg = "MC_C01_rt_q" if tier == "quick" else "MC_C01_rt_t"
    r = vlib.tlc_must_pass(vlib.tlc("MC_C01_rt", cfg, workers=4, timeout=1500, xmx="8g", seed=seed))
    vlib.require_coverage(r, ["Pick"])
    res.add_tlc(r)
    recs = r["records"].get("RT", [])
    if not recs:
        raise vlib.ToolError("MC_C01_rt emitted no configurations")
    inp = os.path.join(vlib.WORK, "beh", "C01rt.ndjson")
    outp = os.path.join(vlib.WORK, "beh", "C01rt.out.ndjson")
    scratch = os.path.join(vlib.WORK, "c01scratch")
    os.makedirs(scratch, exist_ok=True)
    vlib.write_ndjson(inp, recs)
    rc, out = vlib.gvh(["roundtrip", inp, outp, scratch], timeout=3000, bin=BIN)
    rows = vlib.read_ndjson(outp)
    summary = [x for x in rows if x.get("summary")]
    if not summary:
        raise vlib.ToolError("gvh_fail roundtrip wrote no summary:\n" + out[-2000:])
    summary = summary[0]
    # TLC's (configuration, point, order) states and the harness's round trips are the same set
    expected = r["distinct"] - len(recs)
    if summary["cases"] != expected:
        raise vlib.ToolError("round trips evaluated (%d) differ from the cases TLC enumerated (%d)" % (summary["cases"], expected))
    res.assumption_evaluations += summary["cases"]
    res.evaluations += summary["evaluations"]
    groups = [x for x in rows if x.get("group")]
    res.extra["roundtrip"] = {"cases": summary["cases"], "failing": summary["failing"], "configurations": len(recs),
                              "families": summary["families"],
                              "ellipsoids_in_code_not_enumerated": summary["ellipsoids_in_code_not_enumerated"],
                              "failing_groups": [{k: g[k] for k in ("fam", "shape", "order", "what", "failing", "of", "max_residual_m", "ellps")} for g in groups]}
    for n in summary["ellipsoids_in_code_not_enumerated"]:
        res.uncovered.append("ellipsoid in the code's table not enumerated by spec/RoundTrip.tla: " + n)
    res.assumptions.append("round trips: thresholds are those of the C01 statement (exact 0; rigorous 10 um; btmerc/butm/omerc/cart above 100 km "
                           "1 mm; molodensky 20 mm for |lat| <= 70) on the ground: angular residuals x semimajor axis, projected residuals divided by the local "
                           "linear scale (finite differences); longitudes compared modulo 360 degrees")
    res.assumptions.append("round trips: somerc and omerc have no documented domain: +-3 degrees (somerc) / +-6 x +-3 degrees (omerc) around the centre; "
                           "geodesic reversible up to 10 000 km; cart and geodesic are not evaluated on `unitsphere` (metre lattices of heights "
                           "and distances are meaningless on a sphere of radius 1 m)")
    cases = [x for x in rows if not x.get("group") and not x.get("summary")]
    kf = {k["id"]: k for k in vlib.known_findings("C01")}

    def known(g):
        """A group of failing round trips is a known finding iff EVERY failing case in it matches the
        finding's signature (so a different failure of the same operator is still reported)."""
        mine = [c for c in cases if (c["fam"], c["shape"], c["order"], c["what"]) == (g["fam"], g["shape"], g["order"], g["what"])]
        if not mine:
            return None
        for fid, k in kf.items():
            sg = k.get("signature", {})
            if sg.get("family") != g["fam"] or g["what"] != "residual":
                continue
            ok = all((c.get("residual_m") or 1e9) <= sg["max_residual_m"]
                     and ("lat" not in sg or c["detail"]["pt"][1] in sg["lat"])
                     and ("ellps" not in sg or c.get("ellps") in sg["ellps"]) for c in mine)
            if ok:
                return fid
        return None

    for g in groups:
        fid = known(g)
        if fid:
            res.add_known(fid, kf[fid]["what"])
            continue
        wst = g["worst"]
        res.add_violation({"suite": "roundtrip", "what": g["what"], "def": wst.get("def"), "order": g["order"], "family": g["fam"],
                           "shape": g["shape"], "failing": g["failing"], "of": g["of"], "ellipsoids": g["ellps"],
                           "expected": "residual <= %g m" % wst.get("tol_m", 0), "observed": wst.get("detail"),
                           # a panic / refusal tied to an ellipsoid name is one finding, whatever the operator
                           "signature": ("roundtrip|%s|ellps=%s" % (g["what"], ",".join(g["ellps"])) if g["what"] in ("panic", "opfail") and g["ellps"]
                                         else "roundtrip|%s|%s|%s|%s" % (g["fam"], g["shape"], g["order"], g["what"]))})
    return summary, groups
