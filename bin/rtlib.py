"""Runtime protocol traces (spec/Runtime.tla, spec/Trace_Runtime.tla).

record_repo_tests(): runs the repository's own test suite (lib + integration tests) built from /repo's working tree
with the verification guard on and GEODESY_VERIF_TRACE_DIR set, returns the events per process.
to_trace(events): regroups one process' events for Trace_Runtime (built first, then thread by thread).
validate(path): TLC run; returns vlib.tlc_trace's dict."""
import glob, json, os, shutil, subprocess
import vlib

INT_MAX = 2147483647
KEEP = ("built", "dispatch", "applied", "step")


def _int(s):
    v = int(s)
    return v if v < INT_MAX else INT_MAX


def parse_steps(s):
    out = []
    for part in (s.split("|") if s else []):
        f = part.split(";")
        if len(f) != 6:
            raise vlib.ToolError("malformed `built` event: %r" % s)
        out.append({"id": f[0], "name": f[1], "inverted": f[2] == "true", "invertible": f[3] == "true",
                    "of": f[4] == "true", "oi": f[5] == "true"})
    return out


def convert(e):
    k = e["ev"]
    if k == "built":
        return {"ev": k, "id": e["id"], "def": e.get("def", ""), "steps": parse_steps(e["steps"])}
    if k == "dispatch":
        return {"ev": k, "id": e["id"], "name": e["name"], "def": e.get("def", ""), "req": e["req"], "inverted": e["inverted"] == "true",
                "invertible": e["invertible"] == "true", "n": _int(e["n"])}
    if k == "applied":
        return {"ev": k, "id": e["id"], "count": _int(e["count"]), "ran": e["ran"]}
    if k == "step":
        return {"ev": k, "id": e["id"], "name": e["name"], "dir": e["dir"], "skipped": e["skipped"] == "true",
                "count": _int(e["count"]), "depth": _int(e["depth"])}
    raise vlib.ToolError("unexpected event " + k)


def to_trace(events):
    """events of ONE process (dicts with seq, thread, ev, ...) -> records for Trace_Runtime:
    thread by thread in sequence order (`reset` in between); every `built` event is placed right before the first
    call of that pipeline and a `forget` event drops it after its last call has returned (keeps the states small:
    a pipeline is always built before anybody applies it, so moving the event later is sound)."""
    events = sorted((e for e in events if e["ev"] in KEEP), key=lambda e: int(e["seq"]))
    builts = {e["id"]: convert(e) for e in events if e["ev"] == "built"}
    threads = []
    for e in events:
        if e["thread"] not in threads:
            threads.append(e["thread"])
    body = []
    for t in threads:
        mine = [convert(e) for e in events if e["thread"] == t and e["ev"] != "built"]
        if mine:
            body.append({"ev": "reset", "thread": t})
            body.extend(mine)
    last = {}
    for i, e in enumerate(body):
        if e["ev"] == "dispatch" and e["id"] in builts:
            last[e["id"]] = i
    out, live, pending, depth = [], set(), set(), 0
    for i, e in enumerate(body):
        if e["ev"] == "reset":
            depth = 0
            if pending:
                out.append({"ev": "forget", "ids": sorted(pending)}); live -= pending; pending = set()
        if e["ev"] == "dispatch":
            if e["id"] in builts and e["id"] not in live:
                out.append(builts[e["id"]]); live.add(e["id"])
            depth += 1
        out.append(e)
        if e["ev"] == "dispatch" and last.get(e["id"]) == i:
            pending.add(e["id"])
        if e["ev"] == "applied":
            depth = max(0, depth - 1)
            if depth == 0 and pending:
                out.append({"ev": "forget", "ids": sorted(pending)}); live -= pending; pending = set()
    return out


def record_repo_tests(timeout=2400):
    """-> (list of per-process event lists, summary dict)"""
    tdir = os.path.join(vlib.WORK, "repo_traces")
    shutil.rmtree(tdir, ignore_errors=True)
    os.makedirs(tdir)
    env = dict(os.environ, GEODESY_VERIF_TRACE_DIR=tdir, CARGO_NET_OFFLINE="true",
               RUSTFLAGS="--cfg geodesy_verif", CARGO_TARGET_DIR=os.path.join(vlib.WORK, "target_repotests"))
    p = subprocess.run(["cargo", "test", "--offline", "--lib", "--tests", "--manifest-path", os.path.join(vlib.REPO, "Cargo.toml")],
                       env=env, stdout=subprocess.PIPE, stderr=subprocess.STDOUT, text=True, timeout=timeout)
    results = [l for l in p.stdout.splitlines() if l.startswith("test result")]
    if not results:
        raise vlib.ToolError("the repository's tests could not be built or run with the verification guard on:\n" + p.stdout[-3000:])
    passed = sum(int(l.split(" passed")[0].split()[-1]) for l in results)
    failed = sum(int(l.split(" failed")[0].split()[-1]) for l in results)
    procs = []
    for f in sorted(glob.glob(os.path.join(tdir, "*.ndjson"))):
        procs.append([json.loads(l) for l in open(f) if l.strip()])
    return procs, {"tests_passed": passed, "tests_failed": failed, "processes": len(procs), "events": sum(len(x) for x in procs)}


def validate(recs, name):
    path = os.path.join(vlib.WORK, "traces", name + ".ndjson")
    os.makedirs(os.path.dirname(path), exist_ok=True)
    vlib.write_ndjson(path, recs)
    return path, vlib.tlc_trace("Trace_Runtime", path, tag="rt-" + name)


def _context_of(recs, k):
    """the outermost call the event at index k belongs to (for reports)"""
    depth, top = 0, None
    for i, e in enumerate(recs[: k + 1]):
        if e["ev"] == "reset":
            depth, top = 0, None
        elif e["ev"] == "dispatch":
            if depth == 0:
                top = e
            depth += 1
        elif e["ev"] == "applied" and i < k:
            depth = max(0, depth - 1)
    return top


def _judge(res, suite, recs, name):
    path, info = validate(recs, name)
    res.states += info["states"]
    res.transitions += info["generated"]
    res.trace_events += info["matched"] or 0
    if info["accepted"]:
        res.trace_segments_accepted += sum(1 for e in recs if e["ev"] == "dispatch")
        return True
    k = info["matched"] or 0
    top = _context_of(recs, k)
    lo = max(0, k - 12)
    res.add_violation({"suite": suite, "what": "execution rejected by Trace_Runtime (spec/Runtime.tla)",
                       "def": top.get("def") if top else None, "requested": top.get("req") if top else None,
                       "first_unmatched_event": info["next"], "events_before": recs[lo:k],
                       "built": [b for b in recs if b["ev"] == "built" and top and b["id"] == top["id"]],
                       "signature": "runtime|%s|%s|%s" % (suite, top.get("def") if top else "", (info["next"] or {}).get("ev"))})
    return False


def check_model(res, tier):
    r = vlib.tlc_must_pass(vlib.tlc("MC_Runtime", "MC_Runtime_q" if tier == "quick" else "MC_Runtime_t", workers=6, timeout=3000, xmx="8g"))
    vlib.require_coverage(r, ["BuildQ", "BuildP", "Start", "DoSkip", "DoStack", "DoCall", "DoLog", "LeafRet", "PipeRet"])
    res.add_tlc(r)
    return r


def check_repo_tests(res):
    """the repository's own test suite, run with the hooks on, is a behaviour of Runtime.tla"""
    procs, summary = record_repo_tests()
    if summary["tests_failed"]:
        res.uncovered.append("%d of the repository's tests fail with the verification guard on; their traces are validated as far as they go"
                             % summary["tests_failed"])
    n_events = 0
    for i, evs in enumerate(procs):
        recs = to_trace(evs)
        n_events += len(recs)
        if recs:
            _judge(res, "repo-tests", recs, "repo-%d" % i)
    if n_events < 500:
        raise vlib.ToolError("the repository's test suite produced only %d protocol events: hooks missing?" % n_events)
    summary["protocol_events"] = n_events
    res.extra["repo_test_traces"] = summary
    return summary


def check_harness(res, tag, behaviours, n):
    """a spread of the model-derived behaviours, executed by the harness with the file sink on"""
    step = max(1, len(behaviours) // n)
    sample = behaviours[::step]
    tdir = os.path.join(vlib.WORK, "rt_" + tag)
    shutil.rmtree(tdir, ignore_errors=True)
    os.makedirs(tdir)
    inp = os.path.join(vlib.WORK, "beh", tag + "-rt.in.ndjson")
    outp = os.path.join(vlib.WORK, "beh", tag + "-rt.out.ndjson")
    vlib.write_ndjson(inp, sample)
    vlib.gvh(["replay", "script", inp, outp], env={"GEODESY_VERIF_TRACE_DIR": tdir})
    files = sorted(glob.glob(os.path.join(tdir, "*.ndjson")))
    if len(files) != 1:
        raise vlib.ToolError("expected one trace file from the harness, found %d" % len(files))
    recs = to_trace([json.loads(l) for l in open(files[0]) if l.strip()])
    if sum(1 for e in recs if e["ev"] == "step") < len(sample):
        raise vlib.ToolError("harness trace has too few step events (%d behaviours)" % len(sample))
    accepted = _judge(res, "harness-runtime", recs, tag + "-harness")
    res.extra["harness_runtime_trace"] = {"behaviours": len(sample), "events": len(recs)}
    # the binding self test needs an accepted trace to corrupt (a rejected one is already reported as a violation)
    if accepted:
        selftest(recs)
    return recs


def selftest(recs):
    """the binding binds: corruptions of an accepted trace must each be rejected"""
    STACK = ("push", "pop", "stack")
    # a window of the trace that starts and ends with no call open and contains a dispatched (non-stack) step
    depth, bounds = 0, [0]
    for i, e in enumerate(recs):
        if e["ev"] == "dispatch":
            depth += 1
        elif e["ev"] == "applied":
            depth -= 1
            if depth == 0:
                bounds.append(i + 1)
        elif e["ev"] == "reset":
            depth = 0
            bounds.append(i)
    cand = [i for i, e in enumerate(recs) if e["ev"] == "step" and not e["skipped"] and e["name"] not in STACK]
    if not cand:
        raise vlib.ToolError("runtime trace self test: no dispatched step in the trace")
    i0 = cand[len(cand) // 2]
    lo = max(b for b in bounds if b <= i0)
    his = [b for b in bounds if b > i0]
    hi = his[min(len(his) - 1, 20)] if his else len(recs)
    # the `built` events the window needs may lie before it
    need = {e["id"] for e in recs[lo:hi] if e["ev"] == "dispatch"}
    have = {e["id"] for e in recs[lo:hi] if e["ev"] == "built"}
    body = [e for e in recs[:lo] if e["ev"] == "built" and e["id"] in need - have] + [e for e in recs[lo:hi] if e["ev"] != "forget"]
    path = os.path.join(vlib.WORK, "traces", "rt-selftest.ndjson")
    vlib.write_ndjson(path, body)
    if not vlib.tlc_trace("Trace_Runtime", path, tag="rt-selftest")["accepted"]:
        raise vlib.ToolError("runtime trace self test: the uncorrupted window is not accepted")

    def rejected(tr, what):
        vlib.write_ndjson(path, tr)
        if vlib.tlc_trace("Trace_Runtime", path, tag="rt-selftest")["accepted"]:
            raise vlib.ToolError("runtime trace validation is vacuous: accepted a trace with " + what)
    i = next(i for i, e in enumerate(body) if e["ev"] == "step" and not e["skipped"] and e["name"] not in STACK)
    t = [dict(e) for e in body]; t[i]["count"] += 1
    rejected(t, "an altered step count")
    rejected(body[:i] + body[i + 1:], "a dropped step event")
    j = next(j for j, e in enumerate(body) if e["ev"] == "dispatch" and j > 0 and body[j - 1]["ev"] in ("dispatch", "step"))
    t = [dict(e) for e in body]; t[j]["req"] = "I" if t[j]["req"] == "F" else "F"
    rejected(t, "a flipped direction")
    ks = [k for k, e in enumerate(body) if e["ev"] == "built" and len(e["steps"]) >= 2
          and any(d["ev"] == "dispatch" and d["id"] == e["id"] for d in body)]
    if ks:
        t = [dict(e) for e in body]; t[ks[0]]["steps"] = list(reversed(t[ks[0]]["steps"]))
        rejected(t, "the steps of a pipeline in reverse order")


def cache_trace(events):
    """grid cache events of one process (emitted under the cache mutex, so the sequence order is the real order)
    -> records for Trace_C18.  An address may be reused once the cache was cleared and the last operator holding
    the grid is gone: object tokens carry the number of clears before their load."""
    out, gen, token = [{"ev": "reset"}], 0, {}
    for e in sorted(events, key=lambda e: int(e["seq"])):
        if e["ev"] == "grid_clear":
            gen += 1
            out.append({"ev": "grid_clear"})
        elif e["ev"] == "grid_get":
            r = {"ev": "grid_get", "name": e["name"], "outcome": e["outcome"], "obj": ""}
            if e["outcome"] == "load":
                token[e["obj"]] = "%s@%d" % (e["obj"], gen)
            if e["outcome"] in ("load", "hit"):
                r["obj"] = token.get(e["obj"], e["obj"])
            out.append(r)
    return out


def check_repo_cache(res):
    """the grid cache events of the repository's own test suite are those of a sequential cache (Trace_C18)"""
    procs, summary = record_repo_tests()
    n = 0
    for i, evs in enumerate(procs):
        recs = cache_trace(evs)
        if len(recs) < 2:
            continue
        n += len(recs)
        path = os.path.join(vlib.WORK, "traces", "repo-cache-%d.ndjson" % i)
        os.makedirs(os.path.dirname(path), exist_ok=True)
        vlib.write_ndjson(path, recs)
        info = vlib.tlc_trace("Trace_C18", path, tag="rt-cache-%d" % i)
        res.states += info["states"]
        res.transitions += info["generated"]
        res.trace_events += info["matched"] or 0
        if info["accepted"]:
            res.trace_segments_accepted += 1
        else:
            k = info["matched"] or 0
            res.add_violation({"suite": "repo-tests-cache", "what": "grid cache events of the repository's tests rejected by Trace_C18",
                               "first_unmatched_event": info["next"], "events_before": recs[max(0, k - 10):k],
                               "signature": "repo-cache|" + json.dumps(info["next"], sort_keys=True)})
    if n < 10:
        raise vlib.ToolError("the repository's test suite produced only %d grid cache events: hooks missing?" % n)
    res.extra["repo_test_cache_events"] = n
    return n
