"""One definition per built-in operator / parameterisation, with input points (used relationally only)."""
import math
R = math.radians
GEO = [[R(12.0), R(55.0), 100.5, 2020.5], [R(9.0), R(0.5), 0.25, 2021.5], [R(-70.0), R(-33.0), 12.5, 2000.5],
       [R(10.0), R(89.0), 0.0, 2010.0], [R(8.0), R(47.0), 500.0, 2015.0], [float("nan") if False else R(115.0), R(4.0), 0.0, 2001.0]]
DEG = [[55.0, 12.0, 100.5, 2020.5], [0.5, 9.0, 0.25, 2021.5], [-33.0, -70.0, 12.5, 2000.5]]
CART = [[3586469.6568, 762327.6588, 5201383.5231, 2020.5], [6300528.0, 997900.0, 55000.0, 2001.0], [1771000.0, -4866000.0, -3454000.0, 2002.0]]

DEFS = [
    ("addone", GEO), ("noop", GEO), ("longlat", GEO), ("latlon", GEO), ("latlong", GEO), ("lonlat", GEO),
    ("helmert x=-87 y=-96 z=-120", CART),
    ("helmert x=1 y=2 z=3 dx=0.1 dy=0.2 dz=0.3 t_epoch=2010", CART),
    ("helmert convention=position_vector x=0.06155 rx=-0.0394924 y=-0.01087 ry=-0.0327221 z=-0.04019 rz=-0.0328979 s=-0.009994 dx=-0.0001 drx=-0.0001 dy=0.0002 dry=0.0002 dz=0.0003 drz=-0.0003 ds=0.0001 t_epoch=2010", CART),
    ("helmert convention=coordinate_frame exact x=10 y=20 z=30 rx=1 ry=2 rz=3 s=1.5", CART),
    ("helmert translation=1,2,3 velocity=0.1,0.2,0.3 t_epoch=2010 t_obs=2015", CART),
    ("utm zone=32", GEO), ("utm zone=32 south", GEO), ("tmerc lon_0=9 k_0=0.9996 x_0=500000", GEO),
    ("btmerc lon_0=9 k_0=0.9996 x_0=500000", GEO), ("butm zone=32", GEO), ("butm zone=19 south", GEO),
    ("merc", GEO), ("merc lat_ts=56", GEO), ("webmerc", GEO),
    ("lcc lat_1=33 lat_2=45 lon_0=10", GEO), ("lcc lat_1=57 lon_0=12 k_0=0.99", GEO),
    ("laea lat_0=52 lon_0=10 x_0=4321000 y_0=3210000", GEO), ("laea lat_0=90 lon_0=10", GEO), ("laea lon_0=10", GEO),
    ("omerc lonc=115 latc=4 alpha=53:18:56.9537 gamma_c=53:07:48.3685 k_0=0.99984 x_0=590476.87 y_0=442857.65 ellps=evrstSS", GEO),
    ("somerc lat_0=46.9524055555556 lon_0=7.43958333333333 k_0=1 x_0=2600000 y_0=1200000 ellps=bessel", GEO),
    ("cart ellps=intl", GEO), ("cart inv ellps=GRS80", CART), ("cart ellps=6378137,298.25", GEO),
    ("molodensky ellps_0=intl ellps_1=GRS80 dx=-87 dy=-96 dz=-120", GEO),
    ("molodensky ellps_0=intl ellps_1=GRS80 dx=-87 dy=-96 dz=-120 abridged", GEO),
    ("latitude geocentric ellps=GRS80", GEO), ("latitude reduced ellps=GRS80", GEO), ("latitude conformal ellps=GRS80", GEO),
    ("latitude authalic ellps=GRS80", GEO), ("latitude rectifying ellps=GRS80", GEO), ("latitude isometric ellps=GRS80", GEO),
    ("curvature prime ellps=GRS80", GEO), ("curvature meridian", GEO), ("curvature gauss", GEO), ("curvature mean", GEO),
    ("gravity grs80", GEO), ("gravity welmec", GEO), ("permtide from=mean to=zero ellps=GRS80", GEO),
    ("geodesic reversible", DEG), ("geodesic", DEG),
    ("adapt from=neuf_deg", DEG), ("adapt from=wsdp to=enuf_gon", GEO), ("geo:in", DEG), ("gis:out", GEO),
    ("unitconvert xy_in=deg xy_out=rad z_in=ft", DEG), ("axisswap order=2,-1,3", GEO), ("dms", GEO), ("dm", GEO),
    ("stack push=1,2 | addone | stack pop=1,2", GEO), ("push v_1 v_2 | utm zone=32 | pop v_2", GEO),
    ("geo:in | utm zone=32 | neu:out", DEG),
    ("geo:in | cart ellps=intl | helmert x=-87 y=-96 z=-120 | cart inv | geo:out", DEG),
    ("addone > utm zone=32 < addone", GEO),
]


def behaviours():
    out = []
    for i, (d, pts) in enumerate(DEFS):
        out.append({"id": "cat%d" % i, "ctx": "minimal", "resources": {}, "kind": "catalogue", "calls": [
            {"do": "op", "def": d, "as": "h", "ok": None},
            {"do": "steps", "h": "h"},
            {"do": "apply", "h": "h", "dir": "F", "data": pts, "expect": {}},
            {"do": "apply", "h": "h", "dir": "I", "expect": {}},
            {"do": "apply", "h": "h", "dir": "I", "data": pts, "expect": {}},
        ]})
    return out
