"""C16 — definition layout is insignificant; parameters are typed as declared.

spec/Syntax.tla  : AST x layout -> text; TLC enumerates every layout with <= N non-default choices per case and
                   checks that every rendering reads back as its AST (so no two ASTs share a text).
spec/Params.tla  : per parameter kind, structured spellings -> exact value / rejection; defaults, required keys,
                   last-wins, unknown keys, implicit gamut; TLC checks the gamut-order machine against the reference.
Binding          : gvh_syntax layout (every rendering vs. the canonical rendering of the same AST, relationally)
                   and gvh_syntax observe (typed values read back through Context::params, compared here with the
                   exact rationals)."""
import collections, json, math, os, struct
from fractions import Fraction
import vlib, synlib

PROP = "C16"


# --------------------------------------------------------------------------
# layout
# --------------------------------------------------------------------------

def layout_records(records, tag):
    cases = {c["id"]: c for c in records.get("CASE", [])}
    var = collections.defaultdict(list)
    for t in records.get("TEXT", []):
        var[t["c"]].append(t)
    out = []
    for cid, c in sorted(cases.items()):
        def side(text, c=c):
            if c["as"] == "def":
                return {"def": text, "resources": c["resources"]}
            r = dict(c["resources"])
            r[c["as"]] = text
            return {"def": c["invoke"], "resources": r}
        out.append({"id": "%s-%d" % (tag, cid), "ctx": "minimal", "data": synlib.LATTICE, "subject": c["as"],
                    "ok": c["ok"], "nsteps": c["nsteps"], "canon": side(synlib.decode(c["canon"])),
                    "variants": [dict(side(synlib.decode(t["t"])), literal=t["lit"], nocomment=t["noc"],
                                      choices=t["ch"].split(",")) for t in var[cid]]})
    return out


def layout_key(row):
    """(class of definition, set of layout choices). Single-step definitions take a different path through the
    code than pipelines, so they are kept apart; the symptom (op outcome, params, steps) is not part of the key."""
    single = "single-step" if "|" not in row.get("canon", "") else "pipeline"
    return single + (":macro-body" if row.get("subject", "def") != "def" else ""), frozenset(row.get("choices") or [])


def layout_signature(sig):
    """minimal choice sets -> the layout dimensions involved (values dropped)"""
    cls, _, ch = sig.partition("|")
    dims = sorted({c.split("=")[0] for c in ch.split(",") if c})
    return "layout|%s|%s" % (cls, "+".join(dims))


# --------------------------------------------------------------------------
# typed parameters
# --------------------------------------------------------------------------

def bits_to_float(h):
    return struct.unpack(">d", bytes.fromhex(h))[0]


def real_ok(exp, obs):
    """obs: {"bits":..}; exp: {"n":..,"d":..}; within one unit in the last place of the exact value"""
    x = bits_to_float(obs["bits"])
    if not math.isfinite(x):
        return False
    q = Fraction(exp["n"], exp["d"])
    if q == 0:
        return x == 0.0
    return abs(Fraction(x) - q) <= Fraction(math.ulp(float(q)))


def names_key(err, keys):
    if err.get("variant") in ("BadParam", "MissingParam") and err.get("key") in keys:
        return True
    text = err.get("text") or ""
    import re
    return any(re.search(r"(?<![A-Za-z0-9_])%s(?![A-Za-z0-9_])" % re.escape(k), text) for k in keys)


def check_params(exp, obs):
    """exp: PARAMS record of Params.tla; obs: observation of gvh_syntax. Returns list of failures."""
    fails = []
    must = exp["must"]
    if obs["op"] == "panic":
        return [{"what": "panic", "msg": obs["err"].get("text")}]
    if obs["op"] == "err":
        if must == "accept":
            return [{"what": "rejected_valid", "err": obs["err"]}]
        if not names_key(obs["err"], exp["reject"]):
            return [{"what": "rejection_does_not_name_parameter", "err": obs["err"], "should_name_one_of": exp["reject"]}]
        return []
    if must == "reject":
        return [{"what": "accepted_invalid", "should_reject": exp["reject"]}]
    p = obs["params"][0]
    for key, kind in exp["kinds"].items():
        want = exp["values"][key]
        if kind == "flag":
            if (key in p["boolean"]) != bool(want):
                fails.append({"what": "flag", "key": key, "expected": want, "observed": key in p["boolean"]})
        elif kind in ("natural", "integer"):
            got = p[kind].get(key)
            if got != want:
                fails.append({"what": kind, "key": key, "expected": want, "observed": got})
        elif kind == "real":
            got = p["real"].get(key)
            if got is None or not real_ok(want, got):
                fails.append({"what": "real", "key": key, "expected": "%d/%d" % (want["n"], want["d"]), "observed": got})
        elif kind == "series":
            got = p["series"].get(key)
            if key in exp["empty_default"] or want == []:
                # "defaults to nothing" / an explicitly empty series: absent and empty are the same thing
                if want == [] and got in (None, []):
                    continue
            if got is None or len(got) != len(want) or not all(real_ok(w, g) for w, g in zip(want, got)):
                fails.append({"what": "series", "key": key,
                              "expected": ["%d/%d" % (w["n"], w["d"]) for w in want], "observed": got})
        elif kind == "text":
            got = p["text"].get(key)
            if got != synlib.decode(want):
                fails.append({"what": "text", "key": key, "expected": synlib.decode(want), "observed": got})
        elif kind == "texts":
            got = p["texts"].get(key)
            w = [synlib.decode(x) for x in want]
            if w == [] and got in (None, []):
                continue
            if got != w:
                fails.append({"what": "texts", "key": key, "expected": w, "observed": got})
    return fails


def params_signature(exp, fails):
    f = fails[0]
    d = synlib.decode(exp["def"])
    last = d.split()[-1] if d.split() else ""
    key = f.get("key") or (exp["reject"][0] if exp.get("reject") else last.split("=")[0])
    kind = exp["kinds"].get(key, "?")
    if f["what"] in ("panic", "crash", "timeout"):
        return "params|%s|%s|%s" % (f["what"], kind, "multi-byte character" if any(ord(c) > 127 for c in last) else last)
    return "params|%s|%s|%s" % (f["what"], kind, last)


# --------------------------------------------------------------------------

def run(tier, seed):
    res = vlib.Result(PROP, tier, seed, "model_checking")
    vlib.build_harness(synlib.BIN)
    q = tier == "quick"
    # ---- layout ----------------------------------------------------------
    lay_cfgs = ["MC_C16_q"] if q else ["MC_C16_mid", "MC_C16_wide", "MC_C16_deep"]
    rows, ntexts, samples = [], 0, []
    for cfg in lay_cfgs:
        r = vlib.tlc_must_pass(vlib.tlc("MC_C16", cfg, workers=4, timeout=1500, xmx="16g", seed=seed))
        vlib.require_coverage(r, ["SxInit", "Choose"])
        res.add_tlc(r)
        recs = layout_records(r["records"], cfg)
        r["records"] = None
        r["out"] = None
        ntexts += sum(len(x["variants"]) for x in recs)
        if recs and not samples:
            x = recs[len(recs) // 2]
            samples.append({"canon": x["canon"], "variant": x["variants"][len(x["variants"]) // 2] if x["variants"] else None})
        sm, rws = synlib.run_suite("layout", "C16-" + cfg, recs, timeout=1500)
        res.evaluations += sm["evaluations"]
        res.behaviours_replayed += sm["cases"] - len(rws)
        for w in rws:
            if w.get("variant") == -1:
                w["choices"] = []
            w["record"] = None
        rows += rws
        del recs
    groups = {}
    for sig, rs in synlib.minimal_by_choices(rows, layout_key).items():
        groups.setdefault(layout_signature(sig), []).extend(rs)
    for sig, rs in sorted(groups.items(), key=lambda kv: (kv[0].count("+"), kv[0])):
        w = min(rs, key=lambda x: (len(x.get("choices") or []), len(x.get("text") or "")))
        res.add_violation({"suite": "layout", "what": w["fails"][0]["what"], "def": w.get("text"),
                           "expected": "same as canonical rendering %r" % w.get("canon"),
                           "observed": w["fails"][0], "row": w, "occurrences": len(rs),
                           "symptoms": sorted({f["what"] for x in rs for f in x["fails"]}), "signature": sig})
    # ---- typed parameters --------------------------------------------------
    r = vlib.tlc_must_pass(vlib.tlc("MC_C16p", "MC_C16p_q" if q else "MC_C16p_t", workers=4, timeout=1500, xmx="8g", seed=seed))
    vlib.require_coverage(r, ["Given", "Defaulted", "Missing", "Implicit"])
    res.add_tlc(r)
    exps = r["records"].get("PARAMS", [])
    inp = [{"id": i, "ctx": "minimal", "def": synlib.decode(e["def"])} for i, e in enumerate(exps)]
    sm, obs = synlib.run_suite("observe", "C16-params", inp, timeout=1200)
    res.evaluations += sm["evaluations"]
    obs_by = {o["id"]: o for o in obs}
    seen = {}
    nparam_nontrivial = 0
    for i, e in enumerate(exps):
        if e["must"] != "accept" or len(inp[i]["def"].split()) > 3:
            nparam_nontrivial += 1
        o = obs_by.get(i)
        if o is None:
            raise vlib.ToolError("no observation for parameter definition %d" % i)
        if "obs" not in o:      # crash / timeout of the child
            fails = o["fails"]
        else:
            fails = check_params(e, o["obs"])
        if not fails:
            res.behaviours_replayed += 1
            continue
        sig = params_signature(e, fails)
        seen.setdefault(sig, []).append((e, o, fails))
    for sig, lst in seen.items():
        e, o, fails = min(lst, key=lambda t: len(t[0]["def"]))
        res.add_violation({"suite": "params", "what": fails[0]["what"], "def": synlib.decode(e["def"]),
                           "expected": {"must": e["must"], "reject_naming": e["reject"]}, "observed": fails,
                           "expectation": e, "occurrences": len(lst), "signature": sig})
    samples += [exps[0], exps[len(exps) // 2]] if exps else []
    res.samples = samples
    res.distinct_nontrivial = ntexts + nparam_nontrivial
    res.exhaustive = True
    res.extra["layout_texts"] = ntexts
    res.extra["parameter_definitions"] = len(exps)
    res.rule = ("Layout: per case (a definition AST used as the top-level definition or as the body of a macro), TLC enumerates every "
                "layout with at most N simultaneous non-default choices over 16 layout dimensions (whitespace around | = , : $, "
                "blank / two blanks / tab between the elements of a step, "
                "one line / delimiter-first / delimiter-last lines, LF CR CRLF, continuation lines with the colon in the first column or "
                "indented by blanks / a tab, comment position and content, "
                "empty steps, modifier position and =true spelling, < > sugar, subscript digits, text around the definition) and "
                "checks that the rendered text reads back as the AST. quick: 32 cases x <=2 choices; thorough: the 32 cases x <=3 choices, every "
                "definition of <=3 steps over 3 base steps (0, 1 and 3 arguments) x all 8 modifier combinations per step x <=1 "
                "choice, and 4 cases x <=4 choices. "
                "Each text is compared with the canonical text of its AST in the real library: split_into_steps (literally "
                "when only blanks/lines/comments/subscripts differ, as parameter maps when modifiers move), normalize "
                "idempotence, op() outcome, steps(), params() of every step (given, typed values), apply in both directions "
                "bit for bit. Parameters: TLC derives text and exact value (rationals, milli-arc-seconds) or the rejection for "
                "structured spellings of every kind on the harness probe t_gamut; values are read back through "
                "Context::params and must be within 1 ulp, rejections must name the parameter. "
                "Non-trivial = distinct non-canonical texts + parameter definitions with a non-default value or a rejection.")
    res.assumptions = [
        "probe operators (t_add, t_dbl, t_gamut) are defined by the harness",
        "a continuation colon is the first character of its line after optional indentation (blanks or a tab): Rumination 009 calls "
        "the format free-format, every line is trimmed and the statement counts continuation colons and whitespace around every "
        "separator as insignificant; the indented form must therefore behave like the first-column form the documentation shows. "
        "A line break inside a macro name (ns<eol>:id) is not generated",
        "an empty step added to a lone macro invocation is not generated (steps() of a one-step pipeline names the macro, steps() of the macro lists its body)",
        "prefix position only for bare modifiers (inv=true in front of the name is not 'a step that starts with a name')",
        "spellings documented as undefined are not generated: minutes/seconds >= 60, minus sign with hemisphere letter; nor inf/nan/hex, flag=false, NBSP",
        "unusual but unambiguous spellings (+5, 007, .5, 5., 1e3 as integer, 12W, empty series) may be accepted with exactly that value or rejected naming the key",
        "the concrete text produced by normalize() is never compared (only idempotence and agreement between renderings)",
        "which Error variant is returned is not compared: a rejection must carry the parameter name (BadParam/MissingParam key, or in its message)",
        "built-in gamuts are not enumerated (no hook exposes them); typed extraction is exercised through t_gamut, which has one key of every kind",
    ]
    return res.finish()


def replay(path):
    vlib.build_harness(synlib.BIN)
    v = json.load(open(path))
    if v.get("suite") == "layout":
        w = v["row"]
        rec = {"id": "replay", "ctx": w.get("ctx", "minimal"), "data": w.get("data") or synlib.LATTICE, "subject": w["subject"],
               "canon": {"def": w.get("canon_def", w.get("def")), "resources": w.get("canon_resources", w.get("resources"))},
               "variants": [] if w.get("variant") == -1 else
               [{"def": w["def"], "resources": w["resources"], "literal": w.get("literal", False),
                 "nocomment": not any(c.startswith("cpos") for c in (w.get("choices") or [])), "choices": w.get("choices")}]}
        sm, rows = synlib.run_suite("layout", "C16-replay", [rec])
        bad = bool(rows)
        detail = rows[0]["fails"] if rows else None
    else:
        e = v["expectation"]
        sm, obs = synlib.run_suite("observe", "C16-replay", [{"id": 0, "ctx": "minimal", "def": synlib.decode(e["def"])}])
        fails = obs[0]["fails"] if "obs" not in obs[0] else check_params(e, obs[0]["obs"])
        bad = bool(fails)
        detail = fails
    if bad:
        print("VIOLATION property=%s replay=%s" % (PROP, path))
        print(json.dumps(detail, ensure_ascii=False)[:2000])
        return 1
    print("replay passes on the current tree")
    return 0


def selftest(seed):
    """Both bindings must bind: a variant text that differs in one value, and a corrupted expected value,
    have to be noticed."""
    vlib.build_harness(synlib.BIN)
    r = vlib.tlc_must_pass(vlib.tlc("MC_C16", "MC_C16_q", workers=4, timeout=600, seed=seed))
    recs = [x for x in layout_records(r["records"], "selftest") if x["nsteps"] >= 2 and x["subject"] == "def" and "c=1" in x["canon"]["def"]]
    rec = dict(recs[0])
    v = dict(rec["variants"][0])
    v["def"] = v["def"].replace("c=1", "c=2", 1).replace("c =1", "c =2", 1).replace("c= 1", "c= 2", 1).replace("c = 1", "c = 2", 1)
    rec["variants"] = [rec["variants"][1], v]
    sm, rows = synlib.run_suite("layout", "C16-selftest", [rec])
    ok1 = [w.get("variant") for w in rows] == [1]
    r = vlib.tlc_must_pass(vlib.tlc("MC_C16p", "MC_C16p_q", workers=4, timeout=600, seed=seed))
    e = next(x for x in r["records"]["PARAMS"] if x["must"] == "accept" and "real=" in x["def"] and x["values"]["real"]["n"] not in (0, 5))
    sm, obs = synlib.run_suite("observe", "C16-selftest-p", [{"id": 0, "ctx": "minimal", "def": synlib.decode(e["def"])}])
    clean = check_params(e, obs[0]["obs"])
    e2 = json.loads(json.dumps(e))
    e2["values"]["real"]["n"] += 1
    ok2 = not clean and any(f["what"] == "real" for f in check_params(e2, obs[0]["obs"]))
    e3 = json.loads(json.dumps(e))
    e3["must"] = "reject"
    ok3 = any(f["what"] == "accepted_invalid" for f in check_params(e3, obs[0]["obs"]))
    print("selftest: layout corruption %s, value corruption %s, verdict corruption %s"
          % tuple("detected" if k else "NOT detected" for k in (ok1, ok2, ok3)))
    return 0 if ok1 and ok2 and ok3 else 2
