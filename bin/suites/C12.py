"""C12 — the stack sub-language behaves as the documented abstract stack machine."""
import json, os
import vlib, scriptlib

PROP = "C12"
WORKERS = int(os.environ.get("VERIF_TLC_WORKERS", "4"))


def to_behaviour(i, r):
    # `inv` written on a stack step itself: refused at instantiation (ok = null: the applications are then not
    # executed) or the inverse instruction of the documented table (the expectations below) - never ignored
    calls = [{"do": "op", "def": r["def"], "as": "h", "ok": None if r.get("may_refuse") else True}]
    first = True
    for a in r["apps"]:
        c = {"do": "apply", "h": "h", "dir": a["dir"],
             "expect": {"count": a["count"], "honest": True}}
        if a.get("unspecified"):
            # swap on < 2 elements / drop: only what holds for every application is required
            c["expect"] = {"honest": True}
            if first:
                c["data"] = r["data"]
                first = False
            calls.append(c)
            continue
        if first:
            c["data"] = r["data"]
            first = False
        if a["exact"]:
            c["expect"]["data"] = a["data"]
        else:
            c["expect"]["nan_each"] = True
            c["legacy_underflow"] = a.get("legacy_underflow", False)
        calls.append(c)
    # non-trivial: the expected operands differ from the input, or the program underflows, in some application
    nt = any((not a.get("exact")) or a["data"] != r["data"] for a in r["apps"])
    b = {"id": i, "ctx": "minimal", "calls": calls, "spec": {"def": r["def"], "res": r.get("res") or []}, "nt": nt, "patterns": 1}
    if r.get("res"):
        b["resources"] = {m["name"]: m["def"] for m in r["res"]}
    return b


def group(records, start=0):
    """One behaviour per program: the application patterns TLC enumerated for it (F,I / I,F / ...) are replayed one after
    another on ONE handle, each starting from the initial operands (the first application of a pattern carries `data`).
    Instantiating once per program instead of once per pattern changes nothing in what is compared."""
    by = {}
    for r in records:
        by.setdefault((r["def"], json.dumps(r.get("res") or [])), []).append(r)
    out = []
    for rs in by.values():
        b = to_behaviour(start + len(out), rs[0])
        for r in rs[1:]:
            x = to_behaviour(0, r)
            b["calls"] += x["calls"][1:]
            b["nt"] = b["nt"] or x["nt"]
            b["patterns"] += 1
        out.append(b)
    return out


def features(spec):
    """What the program of a behaviour contains beyond plain steps (labels for the report; no influence on verdicts)."""
    import re
    res = {m["name"]: m["def"] for m in spec.get("res") or []}
    texts = [spec["def"]] + list(res.values())
    steps = [t.strip() for x in texts for t in x.split("|") if t.strip()]
    mod = lambda t, k: re.search(r"(^|\s)%s(=true)?(\s|$)" % k, t) is not None
    name = lambda t: [w for w in t.split() if not re.match(r"^(inv|omit_fwd|omit_inv)(=true)?$", w)][0]
    f = set()
    for t in steps:
        n = name(t)
        if n in ("stack", "push", "pop") and mod(t, "inv"):
            f.add("inv-on-stack-step")
        if n in res and mod(t, "inv"):
            f.add("inverted-macro")
        if n in res and " | " in res[n]:
            f.add("pipeline-macro")
        elif n in res:
            f.add("alias-macro")
        if mod(t, "omit_fwd") or mod(t, "omit_inv"):
            f.add("omit")
    if len(steps) == 1 and not res:
        f.add("one-step")
    return sorted(f)


def classify(res, mism, prop=PROP):
    """Sort mismatches into known findings and violations."""
    kf = {k["id"]: k for k in vlib.known_findings(prop)}
    found = []
    for m in mism:
        b = m["behaviour"]
        fails = m["fails"]
        # known finding: a legacy `pop v_i` that underflows marks only the element it could not
        # serve; later steps may overwrite that NaN.  Classified only if that is ALL that is wrong:
        # every failure is a missing NaN after an application in which a legacy pop underflowed
        # (the count, 0, was right - a wrong count is a different failure kind).
        if "KF-legacy-pop-underflow-masked" in kf and all(
                f["what"] in ("nan_each", "dishonest_count") and b["calls"][f["call"]].get("legacy_underflow") for f in fails):
            res.add_known("KF-legacy-pop-underflow-masked", kf["KF-legacy-pop-underflow-masked"]["what"])
            continue
        feat = features(b["spec"]) if b.get("spec", {}).get("def") else []
        cls = "+".join(feat) or "plain"
        sig = fails[0]["what"] + ":" + b["calls"][0]["def"]
        if b.get("resources"):
            sig += " where " + "; ".join("%s := %s" % kv for kv in sorted(b["resources"].items()))
        found.append({"suite": "stack", "class": cls, "behaviour": b, "fails": fails, "def": b["calls"][0]["def"],
                      "resources": b.get("resources"), "what": fails[0]["what"], "signature": sig})
    # report the smallest program of every class first (replay files are written for the first signatures only)
    found.sort(key=lambda v: (v["class"].count("+"), " v_" in v["signature"], len(v["signature"]), v["signature"]))
    by = {}
    for v in found:
        by.setdefault(v["class"], []).append(v)
    if found:
        res.extra["violations_by_class"] = {k: len(v) for k, v in sorted(by.items())}
    order = sorted(by, key=lambda k: (k.count("+"), k))
    i = 0
    while any(by.values()):
        for k in order:
            if by[k]:
                res.add_violation(by[k].pop(0))
        i += 1


def run(tier, seed):
    res = vlib.Result(PROP, tier, seed, "model_checking")
    vlib.build_harness()
    # *_mod*: modifiers (inv, omit_fwd, omit_inv; suffix / prefix / =true) written on stack steps and on alias macros over
    # them, pipelines of one step; *_mac3: macros over pipelines with stack steps (the stack of the expansion)
    wide = ["MC_C12_mod2q", "MC_C12_mod3", "MC_C12_mac3"] if tier == "quick" else ["MC_C12_mod2", "MC_C12_mod3", "MC_C12_mac3t"]
    cfgs = ["MC_C12_full2", "MC_C12_leg3", "MC_C12_mid3"] if tier == "quick" else ["MC_C12_full2", "MC_C12_leg3", "MC_C12_mid3", "MC_C12_red3", "MC_C12_wide2"]
    behaviours = []
    nrec = 0        # TLC-generated behaviours: program x application pattern
    for cfg in cfgs + wide:
        r = vlib.tlc_must_pass(vlib.tlc("MC_C12", cfg, workers=WORKERS, timeout=3000))
        vlib.require_coverage(r, ["Extend", "Start", "StepProbe", "StepStack", "EndApply"] + (["Refuse"] if "_mod" in cfg else []))
        res.add_tlc(r)
        recs = r["records"].get("REPLAY", [])
        if not recs:
            raise vlib.ToolError("no behaviours exported by " + cfg)
        nrec += len(recs)
        behaviours += group(recs, len(behaviours))
    # vacuity: every kind of input the widened model is there for has been generated
    import collections
    fc = collections.Counter(f for b in behaviours for f in features(b["spec"]))
    for need in ("inv-on-stack-step", "inverted-macro", "alias-macro", "pipeline-macro", "omit", "one-step"):
        if fc[need] == 0:
            raise vlib.ToolError("vacuous: no program with feature %s" % need)
    if not any(b["calls"][0]["ok"] is None and len(b["calls"]) > 2 and "data" in b["calls"][1]["expect"] for b in behaviours):
        raise vlib.ToolError("vacuous: no exact expectation for a program with inv on a stack step")
    res.extra["programs_by_feature"] = dict(fc)
    # ---- ill-formed sub-commands are rejected at instantiation
    r = vlib.tlc_must_pass(vlib.tlc("MC_C12_wf", "MC_C12_wf", workers=2, timeout=600))
    res.add_tlc(r)
    wf = r["records"].get("WF", [])
    if len(wf) < 500:
        raise vlib.ToolError("too few well-formedness cases: %d" % len(wf))
    for x in wf:
        behaviours.append({"id": "wf%d" % len(behaviours), "ctx": "minimal", "kind": "wellformed",
                           "calls": [{"do": "op", "def": x["def"], "as": "h", "ok": bool(x["ok"])}],
                           "spec": {"def": x["def"], "res": []}, "nt": False, "patterns": 1})
    nrec += len(wf)
    if tier == "thorough":
        # long random programs (up to 12 steps) by simulation
        r = vlib.tlc("MC_C12", "MC_C12_sim", workers=1, simulate=20000, depth=80, seed=seed, timeout=1500)
        if not r["ok"]:
            raise vlib.ToolError("simulation failed: %s" % r["error"])
        recs = r["records"].get("REPLAY", [])
        res.extra["simulated_long_programs"] = len(recs)
        nrec += len(recs)
        behaviours += group(recs, len(behaviours))
    # ---- the step events of a spread of these programs (stack steps are never dispatched, a failing `stack` step
    # ---- leaves an empty stack, other steps leave the depth alone, count = minimum) against spec/Runtime.tla
    import rtlib
    rtlib.check_harness(res, PROP, [b for b in behaviours if b.get("kind") != "wellformed"], 1500 if tier == "quick" else 15000)
    summary, mism = scriptlib.replay_scripts(PROP, behaviours)
    if summary["behaviours"] != len(behaviours) and not summary.get("not_replayed"):
        raise vlib.ToolError("replayed %d of %d programs" % (summary["behaviours"], len(behaviours)))
    # a TLC-generated behaviour is a program with one application pattern; the patterns of a program share one instantiation
    res.behaviours_replayed = nrec - sum(m["behaviour"].get("patterns", 1) for m in mism) - \
        sum(b["patterns"] for b in behaviours[len(behaviours) - summary.get("not_replayed", 0):])
    res.evaluations = summary["evaluations"]
    res.extra["programs_replayed"] = summary["behaviours"]
    # non-trivial: distinct programs whose expected result differs from the input
    # (or that underflow) in at least one application
    res.distinct_nontrivial = len({(b["spec"]["def"], json.dumps(b["spec"]["res"])) for b in behaviours if b["nt"]})
    res.rule = ("TLC enumerates every program over the configured instruction alphabet up to the length bound, "
                "times the application patterns (F,I / I,F / F,F / I,I on one handle); each behaviour is replayed (the patterns of "
                "one program one after another on one handle, each from the initial operands) "
                "into Context::op + apply and compared exactly (count and all four elements of every tuple; after an "
                "underflow: count 0 and every tuple carries NaN). Steps are also written with modifiers (inv, omit_fwd, omit_inv as "
                "suffix, prefix and =true) on the step itself and on macros over single steps and over pipelines; the expectation "
                "is that of the plan of the literal expansion (a macro body acts on the stack of the application it is expanded "
                "into; an inverted step or macro is the inverse instruction(s) of the documented table, in reverse order); `inv` "
                "written on a stack step itself may also be refused at instantiation. Non-trivial = distinct program texts whose expected "
                "operands differ from the input or that underflow.")
    res.samples = [{k: b[k] for k in ("calls",)} for b in behaviours[:: max(1, len(behaviours) // 4)]][:4]
    res.exhaustive = True
    res.assumptions = ["probe operators t_add/t_dbl are defined by the harness (harness/src/probes.rs)",
                       "swap on fewer than two stack elements is unspecified and not generated",
                       "after an underflow only count=0 and 'every tuple carries NaN' are compared",
                       "`inv` written on a stack/push/pop step itself: Rumination 002 says it is not supported and gives the table of "
                       "inverse instructions, C03 says a step carrying inv has its directions exchanged - both a refusal at instantiation "
                       "and the inverse instruction are accepted, ignoring the modifier is not",
                       "omit_* written inside the body of an alias macro is not generated (C03/C04 territory)"]
    classify(res, mism)
    return res.finish()


def replay(path):
    vlib.build_harness()
    return scriptlib.replay_one(path, PROP)


def selftest(seed):
    """Corrupt one expected value and require the replay to notice."""
    vlib.build_harness()
    r = vlib.tlc_must_pass(vlib.tlc("MC_C12", "MC_C12_full2", workers=WORKERS))
    bs = group(r["records"]["REPLAY"])
    # 200 programs, among them one with an exact expectation to corrupt
    k = next(i for i, b in enumerate(bs) if any("data" in c.get("expect", {}) for c in b["calls"]))
    bs = bs[max(0, k - 199): k + 1]
    tgt = bs[-1]
    call = next(c for c in tgt["calls"] if "data" in c.get("expect", {}))
    call["expect"]["data"][0][0] += 1024
    summary, mism = scriptlib.replay_scripts(PROP + "-selftest", bs)
    ok = any(m["id"] == tgt["id"] for m in mism)
    print("selftest:", "corruption detected" if ok else "corruption NOT detected")
    return 0 if ok else 2
