"""C12 — the stack sub-language behaves as the documented abstract stack machine."""
import json, os
import vlib, scriptlib

PROP = "C12"


def to_behaviour(i, r):
    calls = [{"do": "op", "def": r["def"], "as": "h", "ok": True}]
    first = True
    for a in r["apps"]:
        c = {"do": "apply", "h": "h", "dir": a["dir"],
             "expect": {"count": a["count"], "honest": True}}
        if a.get("unspecified"):
            # swap on < 2 elements / drop: only what holds for every application is required
            c["expect"] = {"honest": True}
            if first:
                c["data"] = r["data"]
                first = False
            calls.append(c)
            continue
        if first:
            c["data"] = r["data"]
            first = False
        if a["exact"]:
            c["expect"]["data"] = a["data"]
        else:
            c["expect"]["nan_each"] = True
            c["legacy_underflow"] = a.get("legacy_underflow", False)
        calls.append(c)
    return {"id": i, "ctx": "minimal", "calls": calls, "spec": r}


def classify(res, mism, prop=PROP):
    """Sort mismatches into known findings and violations."""
    kf = {k["id"]: k for k in vlib.known_findings(prop)}
    for m in mism:
        b = m["behaviour"]
        fails = m["fails"]
        # known finding: a legacy `pop v_i` that underflows marks only the element it could not
        # serve; later steps may overwrite that NaN.  Classified only if that is ALL that is wrong:
        # every failure is a missing NaN after an application in which a legacy pop underflowed
        # (the count, 0, was right - a wrong count is a different failure kind).
        if "KF-legacy-pop-underflow-masked" in kf and all(
                f["what"] in ("nan_each", "dishonest_count") and b["calls"][f["call"]].get("legacy_underflow") for f in fails):
            res.add_known("KF-legacy-pop-underflow-masked", kf["KF-legacy-pop-underflow-masked"]["what"])
            continue
        v = {"suite": "stack", "behaviour": b, "fails": fails, "def": b["calls"][0]["def"],
             "what": fails[0]["what"], "signature": fails[0]["what"] + ":" + b["calls"][0]["def"]}
        res.add_violation(v)


def run(tier, seed):
    res = vlib.Result(PROP, tier, seed, "model_checking")
    vlib.build_harness()
    cfgs = ["MC_C12_full2", "MC_C12_leg3", "MC_C12_mid3"] if tier == "quick" else ["MC_C12_full2", "MC_C12_leg3", "MC_C12_mid3", "MC_C12_red3", "MC_C12_wide2"]
    behaviours = []
    for cfg in cfgs:
        r = vlib.tlc_must_pass(vlib.tlc("MC_C12", cfg, workers=8 if tier == "quick" else 14, timeout=3000))
        vlib.require_coverage(r, ["Extend", "Start", "StepProbe", "StepStack", "EndApply"])
        res.add_tlc(r)
        recs = r["records"].get("REPLAY", [])
        if not recs:
            raise vlib.ToolError("no behaviours exported by " + cfg)
        behaviours += [to_behaviour(len(behaviours) + i, x) for i, x in enumerate(recs)]
    # ---- ill-formed sub-commands are rejected at instantiation
    r = vlib.tlc_must_pass(vlib.tlc("MC_C12_wf", "MC_C12_wf", workers=2, timeout=600))
    res.add_tlc(r)
    wf = r["records"].get("WF", [])
    if len(wf) < 500:
        raise vlib.ToolError("too few well-formedness cases: %d" % len(wf))
    for x in wf:
        behaviours.append({"id": "wf%d" % len(behaviours), "ctx": "minimal", "kind": "wellformed",
                           "calls": [{"do": "op", "def": x["def"], "as": "h", "ok": bool(x["ok"])}],
                           "spec": {"def": x["def"], "data": [], "apps": []}})
    if tier == "thorough":
        # long random programs (up to 12 steps) by simulation
        r = vlib.tlc("MC_C12", "MC_C12_sim", workers=1, simulate=20000, depth=80, seed=seed, timeout=1500)
        if not r["ok"]:
            raise vlib.ToolError("simulation failed: %s" % r["error"])
        recs = r["records"].get("REPLAY", [])
        res.extra["simulated_long_programs"] = len(recs)
        behaviours += [to_behaviour(len(behaviours) + i, x) for i, x in enumerate(recs)]
    # ---- the step events of a spread of these programs (stack steps are never dispatched, a failing `stack` step
    # ---- leaves an empty stack, other steps leave the depth alone, count = minimum) against spec/Runtime.tla
    import rtlib
    rtlib.check_harness(res, PROP, [b for b in behaviours if b.get("kind") != "wellformed"], 1500 if tier == "quick" else 15000)
    summary, mism = scriptlib.replay_scripts(PROP, behaviours)
    res.behaviours_replayed = summary["behaviours"] - len(mism)
    res.evaluations = summary["evaluations"]
    # non-trivial: distinct programs whose expected result differs from the input
    # (or that underflow) in at least one application
    nt = set()
    for b in behaviours:
        s = b["spec"]
        if any((not a["exact"]) or a["data"] != s["data"] for a in s["apps"]):
            nt.add(s["def"])
    res.distinct_nontrivial = len(nt)
    res.rule = ("TLC enumerates every program over the configured instruction alphabet up to the length bound, "
                "times the application patterns (F,I / I,F / F,F / I,I on one handle); each behaviour is replayed "
                "into Context::op + apply and compared exactly (count and all four elements of every tuple; after an "
                "underflow: count 0 and every tuple carries NaN). Non-trivial = distinct program texts whose expected "
                "operands differ from the input or that underflow.")
    res.samples = [{k: b[k] for k in ("calls",)} for b in behaviours[:: max(1, len(behaviours) // 4)]][:4]
    res.exhaustive = True
    res.assumptions = ["probe operators t_add/t_dbl are defined by the harness (harness/src/probes.rs)",
                       "swap on fewer than two stack elements is unspecified and not generated",
                       "after an underflow only count=0 and 'every tuple carries NaN' are compared"]
    classify(res, mism)
    return res.finish()


def replay(path):
    vlib.build_harness()
    return scriptlib.replay_one(path, PROP)


def selftest(seed):
    """Corrupt one expected value and require the replay to notice."""
    vlib.build_harness()
    r = vlib.tlc_must_pass(vlib.tlc("MC_C12", "MC_C12_full2", workers=8))
    recs = r["records"]["REPLAY"][:200]
    bs = [to_behaviour(i, x) for i, x in enumerate(recs)]
    tgt = next(b for b in bs if "data" in b["calls"][1]["expect"])
    tgt["calls"][1]["expect"]["data"][0][0] += 1024
    summary, mism = scriptlib.replay_scripts(PROP + "-selftest", bs)
    ok = any(m["id"] == tgt["id"] for m in mism)
    print("selftest:", "corruption detected" if ok else "corruption NOT detected")
    return 0 if ok else 2
