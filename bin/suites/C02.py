"""C02 — each tuple is transformed independently of neighbours, order and container."""
import json, os, shutil
import vlib, scriptlib

PROP = "C02"


def sched_behaviour(i, x):
    calls = [{"do": "op", "def": x["def"], "as": "h", "ok": True}]
    for o in x["obs"]:
        calls.append({"do": "apply", "h": "h", "dir": o["dir"], "data": o["inp"],
                      "expect": {"count": o["cnt"], "data": o["out"]}})
    return {"id": i, "ctx": "minimal", "resources": x["resources"], "calls": calls}


def record(seed, per_handle, long_len, tag):
    out = os.path.join(vlib.WORK, "beh", tag + ".ndjson")
    scratch = os.path.join(vlib.WORK, "indep")
    shutil.rmtree(scratch, ignore_errors=True)
    os.makedirs(scratch, exist_ok=True)
    rc, txt = vlib.gvh(["record", str(seed), str(per_handle), str(long_len), out, scratch], bin="gvh_indep",
                       env={"XDG_DATA_HOME": os.path.join(scratch, "xdg"), "HOME": scratch}, timeout=3000)
    summary = json.loads([l for l in txt.splitlines() if l.startswith("{")][-1])
    return out, summary


def corrupted_is_rejected(trace):
    """Self-test of the binding: alter one observation whose key was seen before."""
    evs = vlib.read_ndjson(trace)
    seen = set()
    for i, e in enumerate(evs):
        if e["ev"] == "reset":
            seen = set()
        if e["ev"] != "apply":
            continue
        for g in e["g"]:
            k = (e["dir"], e["cls"], g["in"])
            if k in seen and g["out"][0] != 0:
                bad = json.loads(json.dumps(evs))
                for gg in bad[i]["g"]:
                    if gg["in"] == g["in"]:
                        gg["out"][0] = 987654
                pth = trace + ".corrupt"
                vlib.write_ndjson(pth, bad)
                return not vlib.tlc_trace("Trace_C02", pth, tag="Trace_C02-c")["accepted"]
            seen.add(k)
    return False


def run(tier, seed):
    res = vlib.Result(PROP, tier, seed, "model_checking")
    vlib.build_harness("gvh")
    vlib.build_harness("gvh_indep")
    q = tier == "quick"
    # ---- model: schedules (whole / permuted / chunked / singletons / repeated) on the probe basis
    r = vlib.tlc_must_pass(vlib.tlc("MC_C02", "MC_C02_q" if q else "MC_C02_t", workers=8 if q else 14, timeout=3400, xmx="12g"))
    vlib.require_coverage(r, ["ApplyNext"])
    res.add_tlc(r)
    recs = r["records"].get("SCHED", [])
    beh = [sched_behaviour(i, x) for i, x in enumerate(recs)]
    summary, mism = scriptlib.replay_scripts(PROP, beh)
    res.behaviours_replayed = summary["behaviours"] - len(mism)
    res.evaluations = summary["evaluations"]
    for m in mism:
        b = m["behaviour"]
        res.add_violation({"suite": "schedules", "behaviour": b, "fails": m["fails"], "def": b["calls"][0]["def"],
                           "what": m["fails"][0]["what"], "signature": m["fails"][0]["what"] + "|" + b["calls"][0]["def"]})
    res.samples = [beh[len(beh) // 2]]
    # ---- trace validation: one function of (operator, direction, tuple) explains every observation
    per_handle, long_len = (25, 2000) if q else (200, 100000)
    tr, rs = record(seed, per_handle, long_len, "C02-trace")
    evs = vlib.read_ndjson(tr)
    for e in evs:
        if e["ev"] in ("panic", "opfail"):
            res.add_violation({"suite": "trace", "what": e["ev"], "def": e.get("def"), "detail": e,
                               "signature": "%s|%s" % (e["ev"], e.get("def"))})
    clean = os.path.join(vlib.WORK, "beh", "C02-trace.clean.ndjson")
    vlib.write_ndjson(clean, [e for e in evs if e["ev"] in ("reset", "apply")])
    info = vlib.tlc_trace("Trace_C02", clean, timeout=3000)
    res.states += info["states"]
    res.transitions += info["generated"]
    res.trace_events = info["matched"] or 0
    handles = sum(1 for e in evs if e["ev"] == "reset")
    if info["accepted"]:
        res.trace_segments_accepted = handles
    else:
        ce = vlib.read_ndjson(clean)
        k = info["matched"] or 0
        cur = [e for e in ce[:k + 1] if e["ev"] == "reset"][-1]
        res.trace_segments_accepted = sum(1 for e in ce[:k] if e["ev"] == "reset") - 1
        res.add_violation({"suite": "trace", "what": "trace rejected by Trace_C02: no single function of (operator, direction, tuple) explains the observations",
                           "def": cur.get("def"), "first_unmatched_event": info["next"], "matched": k, "total": info["total"],
                           "segment": [e for e in ce[:k + 1] if e.get("h") == cur["h"]][-40:],
                           "signature": "trace|" + str(cur.get("def"))})
    if rs["revisits"] < 0.5 * rs["observations"] or rs["revisits"] < 1000:
        raise vlib.ToolError("vacuous trace: only %d of %d observations revisit a key" % (rs["revisits"], rs["observations"]))
    if not corrupted_is_rejected(clean):
        raise vlib.ToolError("trace validation is vacuous: a corrupted trace was accepted")
    res.evaluations += rs["events"]
    res.distinct_nontrivial = rs["revisits"]
    res.extra["trace_observations"] = rs["observations"]
    res.extra["operator_handles_in_trace"] = handles
    res.uncovered = ["built-in never exercised by the recorder: " + n for n in rs["uncovered_builtins"] if n != "pipeline"]
    res.samples.append(evs[5])
    res.rule = ("(1) TLC enumerates schedules on one handle (the whole set, every permutation, every split into two chunks, singletons "
                "then the whole, F-I-F repetition) for sets of up to N tuples from a pool with mixed epochs, a NaN member, a failing "
                "member and a NaN epoch, over time-dependent, failing, one-way, stack-free pipeline and macro operators of the probe "
                "basis, and checks batch semantics = per-tuple function; each schedule is replayed with exact expectations. "
                "(2) ~50 real operator instances (every built-in, dynamic helmert, grid operators, stack and macro pipelines) are "
                "driven with random sets (length 0..12, occasionally very long with repeats) through 9 container kinds; TLC "
                "validates that one function of (direction, input tuple) explains all observations and that counts of elementary "
                "operators are additive. distinct_nontrivial = number of tuple observations that revisit a key already observed "
                "in another position, set, container or earlier call (the only ones that can contradict).")
    res.assumptions = ["Coor32 containers form their own value class (inputs and outputs rounded to f32)",
                       "per-tuple counts are learnt from applications to single tuples",
                       "the trace binding is self-tested on every run (a corrupted revisited observation must be rejected)"]
    return res.finish()


def replay(path):
    v = json.load(open(path))
    if v.get("suite") == "schedules":
        vlib.build_harness("gvh")
        return scriptlib.replay_one(path, PROP)
    print("trace violation: re-running the recorder with the recorded seed")
    return run(v.get("tier", "quick"), v.get("seed", 1))
