"""C10 — failures are visible: honest counts, NaN for failed tuples, untouched axes kept."""
import json, os, collections
import vlib

PROP = "C10"
BIN = "gvh_fail"


def _signature(f):
    return "%s|%s|%s|%s|%s" % (f.get("t"), f.get("row") or f.get("def"), f.get("dir"), f.get("cls", ""), ";".join(f.get("clauses", [])))


def _key(x):
    """Identifies a TLC record from the record itself or from a failure line of the harness."""
    if x.get("t") == "case":
        return ("case", x.get("def"), x.get("dir"), x.get("cls"), json.dumps(sorted(x.get("mask") or [])), json.dumps(x.get("pt")))
    return (x.get("t"), x.get("def"), x.get("dir"))


def _pipe_records(r):
    out = []
    for x in r["records"].get("PIPE", []):
        x["t"] = "pipe"
        out.append(x)
    return out


def _replay(recs, tag, timeout=3000):
    inp = os.path.join(vlib.WORK, "beh", "%s.ndjson" % tag)
    outp = os.path.join(vlib.WORK, "beh", "%s.out.ndjson" % tag)
    scratch = os.path.join(vlib.WORK, "c10scratch")
    os.makedirs(scratch, exist_ok=True)
    vlib.write_ndjson(inp, recs)
    rc, out = vlib.gvh(["replay", inp, outp, scratch], timeout=timeout, bin=BIN)
    rows = vlib.read_ndjson(outp)
    summary = [x for x in rows if x.get("summary")]
    if not summary:
        raise vlib.ToolError("gvh_fail wrote no summary:\n" + out[-2000:])
    return summary[0], [x for x in rows if not x.get("summary")]


def run(tier, seed):
    res = vlib.Result(PROP, tier, seed, "model_checking")
    vlib.build_harness(BIN)
    q = tier == "quick"
    recs = []
    # 1. single operators: row x direction x class x point x NaN mask, and the whole set in one call
    r = vlib.tlc_must_pass(vlib.tlc("MC_C10", "MC_C10_q", workers=4, timeout=900))
    vlib.require_coverage(r, ["PickCase"])
    res.add_tlc(r)
    cases = r["records"].get("CASE", [])
    sets = r["records"].get("SET", [])
    if not cases or not sets:
        raise vlib.ToolError("MC_C10 emitted no cases")
    classes = collections.Counter(c["cls"] for c in cases)
    for need in ("in", "out", "edge", "nul", "cor", "inf", "unt"):
        if classes[need] == 0:
            raise vlib.ToolError("vacuous: no case of domain class %s" % need)
    if not any(not c["sup"] for c in cases):
        raise vlib.ToolError("vacuous: no unsupported-inverse case")
    # the derived value classes really carry the values they are named after
    special = collections.Counter(v for c in cases if c["cls"] in ("inf", "unt") for v in c["pt"] if v in ("inf", "-inf", "-0.0"))
    for need in ("inf", "-inf", "-0.0"):
        if special[need] == 0:
            raise vlib.ToolError("vacuous: no case with %s in an element" % need)
    for x in cases:
        x["t"] = "case"
    for x in sets:
        x["t"] = "set"
    recs += cases + sets
    # 2. pipelines of rows
    cfgs = ["MC_C10_pipe_q"] if q else ["MC_C10_pipe_q", "MC_C10_pipe_all", "MC_C10_pipe_t", "MC_C10_pipe_om"]
    npipes = 0
    for cfg in cfgs:
        # (-coverage makes TLC run out of memory on the recursive operators of the pipeline semantics; the only
        # action is Extend, taken once per state beyond the initial one)
        rp = vlib.tlc_must_pass(vlib.tlc("MC_C10_pipe", cfg, workers=4, timeout=1500, xmx="8g", coverage=False))
        if rp["distinct"] < 10:
            raise vlib.ToolError("vacuous model run %s: %d states" % (cfg, rp["distinct"]))
        rp["coverage"] = {"Extend": rp["distinct"] - 1}
        res.add_tlc(rp)
        pr = _pipe_records(rp)
        if not pr:
            raise vlib.ToolError("%s emitted no pipelines" % cfg)
        npipes += len(pr)
        recs += pr
    pipes = [x for x in recs if x["t"] == "pipe"]
    if not any(p["zero"] for p in pipes) or not any(p["underflow"] for p in pipes) or not any(p["lo"] < p["n"] and not p["zero"] and not p["underflow"] for p in pipes):
        raise vlib.ToolError("vacuous: pipelines lack a one-way inverse step, a stack underflow or a failing step")
    summary, fails = _replay(recs, "C10")
    res.evaluations = summary["evaluations"]
    ncases = summary["cases"] + summary["sets"] + summary["pipes"]
    bad = len({(f.get("t"), f.get("def"), f.get("dir"), json.dumps(f.get("mask")), f.get("cls"), f.get("row")) for f in fails})
    res.behaviours_replayed = max(0, ncases - bad)
    res.distinct_nontrivial = summary["nontrivial"] + sum(1 for p in pipes if p["lo"] < p["n"] or any(e != "same" for m in p["members"] for e in m["el"]))
    res.exhaustive = True
    res.uncovered = ["built-in operator not named by any catalogue row: " + n for n in summary["uncovered_builtins"]]
    res.extra["cases_by_class"] = dict(classes)
    res.extra["catalogue_rows"] = summary["rows"]
    res.extra["pipelines"] = npipes
    res.extra["step_events_checked"] = summary["step_events"]
    res.rule = ("spec/Catalogue.tla: one row per operator parameterisation (every built-in name; aspects of laea/lcc/merc/utm/helmert/"
                "molodensky/grid operators with and without @null). TLC enumerates row x direction x domain class (inside / far outside a "
                "declared limit / at the limit / outside coverage with a null grid / corner of the value space: poles, a degree beyond, antipode, "
                "image of a pole, centre of curvature, largest finite number / +-inf in one element that is read, where a limit is declared / "
                "+-inf or -0.0 in one element the operator does not work on) x representative point x all 16 NaN masks and derives the "
                "set of admissible abstract outcomes (counted?, per element same|new|nan|any, carries-NaN, really-changed); per (row, direction) "
                "all these tuples also go through one call (count between the number that must and the number that may be counted, in both "
                "orders). Pipelines of 2 (quick) / 3 (thorough) steps over 40+ step variants incl. inv and omit_*: abstract transformers "
                "composed, count bounds per executed step (checked against the step hook) and pipeline count = minimum of the observed step "
                "counts. The harness abstracts every concrete result by bit comparison with the input and is_nan. Non-trivial = distinct "
                "(row, direction, class) whose prediction is not 'counted and unchanged', plus pipelines with a failing step or changed data.")
    res.samples = [cases[0], cases[len(cases) // 2], pipes[len(pipes) // 3] if pipes else None, sets[0]["row"]]
    res.assumptions = [
        "which elements carry the NaN of a failed tuple is not compared (any element)",
        "NaN in an element the operator reads: counted or not is not prescribed; only NaN propagation and (if counted) untouched elements",
        "points at a declared limit (edge) admit both outcomes: fully transformed and counted, or NaN and not counted",
        "corners of the value space (cor: finite numbers where the formulas degenerate) and +-inf in an element that is read (inf) admit the same "
        "two outcomes; what is never admitted is a counted tuple with NaN in a written element although nothing it read was NaN",
        "+-inf in a written element of a counted tuple is NOT judged (only NaN is): the statement names NaN as the mark of failure, and for "
        "merc/webmerc/somerc at a pole or btmerc a quarter turn off the central meridian an infinite coordinate is the mathematically right "
        "value (PROJ refuses such points; the documentation of the crate does not say)",
        "+-inf in an element that is read is asked only of directions with a declared limit (tmerc/utm, lcc, laea inverse, somerc inverse, "
        "grid operators, geodesic): the statement speaks of NaN inputs, not of infinite ones, and affine operators (helmert, addone, "
        "unitconvert, adapt, axisswap) legitimately turn them into inf - inf = NaN; likewise the largest finite number is a corner of "
        "the transverse Mercator rows only (overflow inside an affine operator is not judged)",
        "far-outside points exist only where the operator declares a limit: tmerc/utm strip, laea disc (inverse, all aspects as the statement "
        "names the disc), lcc opposite pole (forward), grid coverage; btmerc/butm, merc, omerc, cart etc. declare none",
        "lcc and somerc inverse signal non-convergence but no representative non-converging point is known: no outside class",
        "stand-alone stack/push/pop operators (outside a pipeline) are not specified and not compared",
        "a NaN that a later step legitimately overwrites (stack pop/flip, geodesic, deformation raw) is not required to survive",
    ]
    # classification: an observation that contradicts the reference but equals the prediction with the deviation
    # switch(es) of spec/Catalogue.tla on is that known deviation - a KNOWN-FINDING if known_findings.json lists it,
    # a VIOLATION (one signature per deviation) otherwise; everything else is a VIOLATION of its own
    known = {k.get("deviation"): k for k in vlib.known_findings(PROP)}
    seen = collections.Counter()
    index = {_key(x): x for x in recs}
    # at most ten distinct signatures get a replay file (vlib): take the failures operator by operator, so that the ten
    # show as many different operators as possible (the k-th failing signature of each before the k+1-th of any)
    rank, nsig = {}, collections.Counter()
    for f in fails:
        name = ((f.get("def") or "").split() or ["?"])[0]
        sg = (name, _signature(f))
        if sg not in rank:
            rank[sg] = nsig[name]
            nsig[name] += 1
    fails = sorted(fails, key=lambda f: rank[(((f.get("def") or "").split() or ["?"])[0], _signature(f))])
    for f in fails:
        devs = f.get("deviation") or []
        if devs and all(d in known for d in devs):
            for d in devs:
                res.add_known(known[d].get("id", d), known[d].get("what", d))
            continue
        sig = "deviation:" + "+".join(sorted(devs)) if devs else _signature(f)
        seen[sig] += 1
        if seen[sig] > 25:      # keep the evidence small: the count is in distinct_violation_signatures
            continue
        res.add_violation({"suite": f.get("t"), "what": f.get("what"), "def": f.get("def"), "dir": f.get("dir"), "ctx": f.get("ctx"),
                           "deviation": devs or None, "expected": f.get("admissible"),
                           "observed": {k: f.get(k) for k in ("count", "observed", "output", "stepcounts", "lo", "hi") if k in f},
                           "clauses": f.get("clauses"), "record": f, "behaviour": index.get(_key(f)), "signature": sig})
    res.extra["distinct_violation_signatures"] = dict(seen)
    stack_honesty(res)
    # the data-free protocol (spec/Runtime.tla: count = minimum over the applied steps, no count above the set size, the
    # missing inverse of a one-way operator = 0) on the repository's own test suite, recorded through the hooks
    import rtlib
    rtlib.check_model(res, "quick")
    rtlib.check_repo_tests(res)
    return res.finish()


def stack_honesty(res):
    """Stack steps inside pipelines (underflow, swap on < 2 elements, the undocumented `drop`, the deprecated
    push/pop): whatever such a program does, its application must be honest - no more successes than tuples,
    and every tuple it does not count carries NaN.  Programs come from the stack machine of C12
    (StackMachine.tla, three-step programs over a small alphabet including swap/drop/legacy steps)."""
    import scriptlib
    from suites import C12
    vlib.build_harness("gvh")
    r = vlib.tlc_must_pass(vlib.tlc("MC_C12", "MC_C12_leg3", workers=4, timeout=900, tag="MC_C12_leg3-C10"))
    res.add_tlc(r)
    beh = []
    for i, x in enumerate(r["records"].get("REPLAY", [])):
        b = C12.to_behaviour("s%d" % i, x)
        for c in b["calls"]:
            if c["do"] == "apply":
                # only the C10 clauses: honesty (and NaN after a detected underflow); exact operands are C12's business
                c["expect"] = {k: v for k, v in c["expect"].items() if k in ("honest", "nan_each")}
                c["expect"]["honest"] = True
        beh.append(b)
    summary, mism = scriptlib.replay_scripts("C10-stack", beh)
    res.behaviours_replayed += summary["behaviours"] - len(mism)
    res.evaluations += summary["evaluations"]
    res.extra["stack_honesty_programs"] = len(beh)
    kf = {k["id"]: k for k in vlib.known_findings(PROP)}
    for m in mism:
        b = m["behaviour"]
        fails = m["fails"]
        fid = "KF-legacy-pop-underflow-masked"
        if fid in kf and all(f["what"] in ("nan_each", "dishonest_count") and b["calls"][f["call"]].get("legacy_underflow") for f in fails):
            res.add_known(fid, kf[fid]["what"])
            continue
        res.add_violation({"suite": "stack-honesty", "behaviour": b, "fails": fails, "def": b["calls"][0]["def"],
                           "what": fails[0]["what"], "signature": "stack-honesty|" + fails[0]["what"] + "|" + b["calls"][0]["def"]})


def replay(path):
    """Re-run the TLC record of a violation file through the harness: exit 1 iff it still contradicts the reference."""
    vlib.build_harness(BIN)
    v = json.load(open(path))
    if v.get("suite") == "stack-honesty":
        import scriptlib
        vlib.build_harness("gvh")
        return scriptlib.replay_one(path, PROP)
    rec = v.get("behaviour")
    if rec is None:
        print("violation file carries no behaviour record")
        return 2
    summary, fails = _replay([rec], "C10-replay", timeout=300)
    for x in fails[:5]:
        print("still failing:", json.dumps({k: x.get(k) for k in ("t", "def", "dir", "cls", "mask", "input", "output", "count", "lo", "hi", "clauses", "deviation")})[:900])
    if fails:
        print("VIOLATION property=%s replay=%s" % (PROP, path))
        return 1
    print("no longer failing")
    return 0


def selftest(seed):
    """The comparison binds: corrupted predictions must be rejected, the genuine ones of the same cases accepted."""
    vlib.build_harness(BIN)
    r = vlib.tlc_must_pass(vlib.tlc("MC_C10", "MC_C10_q", workers=4, timeout=900))
    # (the classes of which the expectation is a single outcome, and the edge: the self test is about the binding, and
    # must not depend on how the code treats the corners of the value space)
    good = [dict(c, t="case") for c in r["records"]["CASE"] if c["row"] == "utm_n" and c["dir"] == "F" and not c["mask"]
            and c["cls"] in ("in", "out", "edge", "unt")]
    if len(good) < 2:
        raise vlib.ToolError("selftest: cases not found")
    summary, fails = _replay(good, "C10-self-good", timeout=300)
    if fails:
        print("selftest: genuine predictions rejected", fails[:2])
        return 1
    bad = []
    for c in good:
        for corrupt in ("count", "untouched", "nan"):
            x = json.loads(json.dumps(c))
            for o in x["outs"]:
                if corrupt == "count":
                    o["c"] = not o["c"]
                elif corrupt == "untouched":
                    o["el"][2] = "nan"          # claims the height becomes NaN
                else:
                    o["el"] = ["same"] * 4      # claims nothing changes
                    o["sn"] = False
            x["pt"] = list(x["pt"])
            x["row"] = x["row"] + "/" + corrupt
            bad.append(x)
    summary, fails = _replay(bad, "C10-self-bad", timeout=300)
    rejected = {f["row"] + f["cls"] for f in fails}
    expected = {b["row"] + b["cls"] for b in bad}
    print("selftest: %d corrupted predictions, %d rejected" % (len(expected), len(rejected)))
    return 0 if rejected == expected else 1
