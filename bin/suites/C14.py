"""C14 — independent implementations of the same quantity agree (claimed partially: see DESIGN §5.14)."""
import json, os
import vlib, scriptlib, pipelib, catdefs

PROP = "C14"


def twin(tag, behaviours):
    inp = os.path.join(vlib.WORK, "beh", tag + ".ndjson")
    outp = os.path.join(vlib.WORK, "beh", tag + ".out.ndjson")
    vlib.write_ndjson(inp, behaviours)
    rc, out = vlib.gvh(["replay", "twin", inp, outp], timeout=3000)
    rows = vlib.read_ndjson(outp)
    return [r for r in rows if r.get("summary")][0], [r for r in rows if not r.get("summary")]


def run(tier, seed):
    res = vlib.Result(PROP, tier, seed, "model_checking")
    vlib.build_harness()
    q = tier == "quick"
    beh = []
    # (a) Minimal = Plain: every behaviour generated from the Pipeline specification for C03 and C04 ...
    for mod, cfg in (("MC_C03", "MC_C03_len2"), ("MC_C04", "MC_C04_q" if q else "MC_C04_t")):
        r = vlib.tlc_must_pass(vlib.tlc(mod, cfg, workers=8 if q else 14, timeout=3400, xmx="12g"))
        vlib.require_coverage(r, ["DispatchNext", "StepLeaf", "Return"])
        res.add_tlc(r)
        for x in r["records"].get("REPLAY", []):
            beh += pipelib.to_behaviours(len(beh), x, relational=(mod == "MC_C03"))
    ncat0 = len(beh)
    # ... and one definition per built-in operator / parameterisation
    beh += catdefs.behaviours()
    summary, mism = twin(PROP, beh)
    res.behaviours_replayed = summary["behaviours"] - len(mism)
    res.evaluations = summary["evaluations"]
    for m in mism:
        b = m["behaviour"]
        res.add_violation({"suite": "minimal-vs-plain", "behaviour": b, "fails": m["fails"], "def": b["calls"][0]["def"],
                           "what": "minimal_vs_plain", "signature": "twin|" + b["calls"][0]["def"]})
    # (b) the mappings adapt / axisswap / unitconvert share, derived from Adapt.tla
    r2 = vlib.tlc_must_pass(vlib.tlc("MC_C11_swap", "MC_C11_swap_q", workers=8, timeout=1700))
    res.add_tlc(r2)
    recs = []
    for x in r2["records"].get("SWAP", []):
        if x["valid"] and x["descr"]:
            recs.append({"t": "same", "a": "axisswap order=" + x["order"], "b": "adapt to=" + x["descr"]})
    for x in r2["records"].get("SHARE", []):
        # a unit change is a scaling: only the forward mappings are "the mapping they share"; the two
        # operators' inverses (divide vs multiply by the reciprocal) need not agree to the last bit,
        # and adapt's own inverse is pinned by C11 (adapt to=X == adapt inv from=X, bit for bit)
        recs.append({"t": "same", "a": x["a"], "b": x["b"], "dirs": "F"})
    if len(recs) < 380:
        raise vlib.ToolError("too few shared mappings derived: %d" % len(recs))
    inp = os.path.join(vlib.WORK, "beh", "C14-shared.ndjson")
    outp = os.path.join(vlib.WORK, "beh", "C14-shared.out.ndjson")
    vlib.write_ndjson(inp, recs)
    rc, out = vlib.gvh(["replay", "tables", inp, outp], timeout=1700)
    rows = vlib.read_ndjson(outp)
    sm = [x for x in rows if x.get("summary")][0]
    fails = [x for x in rows if not x.get("summary") and x.get("what") != "more"]
    res.behaviours_replayed += sm["cases"] - len(fails)
    res.evaluations += sm["evaluations"]
    for f in fails:
        res.add_violation({"suite": "shared-mappings", "what": f.get("what"), "def": f.get("a"), "detail": f,
                           "signature": "shared|%s|%s" % (f.get("a"), f.get("b"))})
    res.distinct_nontrivial = len({b["calls"][0]["def"] for b in beh}) + len(recs)
    res.samples = [beh[ncat0 + 3], recs[0], recs[-1]]
    res.exhaustive = True
    res.rule = ("(a) every behaviour TLC generates from Pipeline.tla for C03 (definitions of <= 2 steps x modifiers x layouts, exact and "
                "with built-in stand-ins) and C04 (macro binding), plus one definition per built-in operator / parameterisation "
                "(%d), is executed in a Minimal and in a Plain context; the two observation sequences (Ok/Err of op, steps(), "
                "counts, result bit patterns in both directions) must be identical. (b) TLC derives from Adapt.tla every mapping "
                "axisswap shares with adapt (384 full signed permutations) and the angular unit changes adapt shares with "
                "unitconvert; the real operators must agree bit for bit in both directions. distinct_nontrivial = distinct "
                "definitions twin-executed + shared mappings." % len(catdefs.DEFS))
    res.assumptions = ["error texts may name the provider and are not compared"]
    # (c) the numeric route pairs the statement names (spec/Routes.tla)
    import c14routes
    summary, groups = c14routes.route_pairs(tier, seed, res)
    if summary:
        res.distinct_nontrivial += summary["distinct_pair_shape_ellipsoid_direction"]
        res.samples.append(summary["sample"])
    res.rule += (" (c) spec/Routes.tla: the catalogue of the route pairs the statement names, with shared parameter shapes, common "
                 "domain, lattice, accuracy class and ellipsoid set; TLC enumerates every obligation, the harness runs both routes.")
    return res.finish()


def replay(path):
    vlib.build_harness()
    v = json.load(open(path))
    if v.get("suite") == "minimal-vs-plain":
        s, m = twin(PROP + "-replay", [v["behaviour"]])
        if m:
            print("VIOLATION property=%s replay=%s" % (PROP, path))
            return 1
        print("replay passes on the current tree")
        return 0
    if v.get("suite") == "route-pairs":
        import c14routes
        return c14routes.replay(path)
    return run("quick", 1)
