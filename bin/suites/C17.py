"""C17 — PROJ strings are translated without changing their meaning.

spec/ProjSyntax.tla: PROJ AST x layout -> text, and the reference translation to a Geodesy definition
(Pipeline AST). TLC checks: a pipeline-level inv yields exactly the inverse of the non-inverted pipeline (plans
and results), globals never override step-local arguments, step order, meaning of omit_fwd/omit_inv.
Binding (gvh_syntax proj, Plain context): op(PROJ text) vs op(reference Geodesy text) — both succeed or both
fail, equal steps and step parameters, bit-identical results in both directions; exact expected operands on the
harness probe operators; parse_proj twice = once; Geodesy text passes unchanged; init= and nested pipelines are
refused."""
import collections, json, os, re
import vlib, synlib

PROP = "C17"


def proj_records(records, tag):
    cases = {c["id"]: c for c in records.get("PCASE", [])}
    texts = collections.defaultdict(list)
    for t in records.get("PTEXT", []):
        texts[t["c"]].append(t)
    out = []
    for cid, c in sorted(cases.items()):
        probe = c["fam"] == "probe"
        expect = None
        if probe and c["apps"]:
            expect = {a["dir"]: {"count": a["count"], "data": a["data"]} for a in c["apps"]}
        base = {"refuse": c["refuse"] != "", "why": c["refuse"], "ref": synlib.decode(c["ref"]) if c["refuse"] == "" else None,
                "data": c["data"] if c["data"] else synlib.GEO, "expect": expect, "ok": c["ok"] if probe else None,
                "passthrough": [synlib.decode(c["ref"])] if c["refuse"] == "" else [], "fam": c["fam"],
                "canon_proj": synlib.decode(c["proj"]),
                "resources": {k: synlib.decode(v) for k, v in (c.get("resources") or {}).items()}}
        if c["fam"] == "pass":
            # text that is not PROJ syntax: the text itself must come out of parse_proj unchanged and behave like the
            # canonical one-line text of the same definition (exact operands where the model has them)
            base["ok"] = c["ok"]
            if c["apps"]:
                base["expect"] = {a["dir"]: {"count": a["count"], "data": a["data"]} for a in c["apps"]}
        for k, t in [(-1, {"t": c["proj"], "ch": ""})] + list(enumerate(texts[cid])):
            text = synlib.decode(t["t"])
            rec = dict(base, id="%s-%d" % (tag, cid) if k < 0 else "%s-%d-%d" % (tag, cid, k), proj=text,
                       choices=[x for x in t["ch"].split(",") if x])
            if c["fam"] == "pass":
                rec["passthrough"] = base["passthrough"] + ([text] if text != base["ref"] else [])
            out.append(rec)
    return out


def features(row):
    """what the PROJ definition contains, read off its canonical text (for a stable signature)"""
    t = row.get("canon_proj") or row.get("proj") or ""
    if row.get("fam") == "pass":
        # a Geodesy definition; where the word proj occurs apart from the comment
        r = row.get("ref") or ""
        return (["proj-in-macro-name"] if "proj:" in r else ["proj-in-value"] if "proj" in r else []) \
            + (["several-steps"] if "|" in r else [])
    pipe = t.startswith("proj=pipeline")
    hdr = t.split(" step ")[0] if pipe else ""
    f = []
    if pipe and " inv " in (hdr + " "):
        f.append("pipeline-inv")
    one = pipe and t.count(" step ") == 1
    if "omit_" in t:
        # a one-step pipeline with a directional step is its own class: the translation must stay a pipeline
        f.append("one-step-pipeline-with-omit" if one else "omit")
    body = t[len(hdr):] if pipe else " " + t
    if " ellps=" in hdr and any(" a=" in st and " rf=" in st for st in body.split(" step ")):
        f.append("global-ellps-and-a-rf-in-a-step")
    ga, gk = (" a=" in hdr or " rf=" in hdr), " k=" in hdr
    la, lk = (" a=" in body or " rf=" in body), " k=" in body
    if ga and la:
        f.append("a-rf-at-pipeline-level-and-in-a-step")
    elif ga and " a=" in hdr and " rf=" in hdr:
        f.append("global-a-rf")
    if gk and lk:
        f.append("k-at-pipeline-level-and-in-a-step")
    elif gk:
        f.append("global-k")
    if body.count(" k=") > 1 and (not pipe or any(st.count(" k=") > 1 for st in (" " + body).split(" step "))):
        f.append("repeated-k")
    elif pipe and len(hdr.split()) > (2 if " inv " in (hdr + " ") else 1):
        f.append("globals")
    if row.get("why"):
        f.append(row["why"])
    return f


TEXT_ONLY = ("passthrough_changed", "parse_proj_not_idempotent")


def proj_key(row):
    """layout choices + features of the definition: the minimal sets are reported, whatever the symptom.
    Text that is not PROJ syntax (family "pass") is kept apart, and there the two grades of "not unchanged":
    the text comes back altered but means the same / the definition no longer means the same."""
    kind = "proj"
    if row.get("fam") == "pass":
        same = all(f["what"] in TEXT_ONLY for f in row["fails"])
        kind = "not-proj-syntax:text-altered-meaning-kept" if same else "not-proj-syntax:meaning-changed"
    return kind, frozenset([c for c in (row.get("choices") or []) if c] + ["has:" + f for f in features(row)])


def signature(sig):
    kind, _, ch = sig.partition("|")
    items = sorted({c[4:] if c.startswith("has:") else "layout:" + c.split("=")[0] for c in ch.split(",") if c})
    return "%s|%s" % (kind, "+".join(items))


def run(tier, seed):
    res = vlib.Result(PROP, tier, seed, "model_checking")
    vlib.build_harness(synlib.BIN)
    q = tier == "quick"
    cfgs = ["MC_C17_semq", "MC_C17_layq"] if q else ["MC_C17_semq", "MC_C17_semt", "MC_C17_layt"]
    rows, ntexts, nontrivial, samples = [], 0, 0, []
    for cfg in cfgs:
        r = vlib.tlc_must_pass(vlib.tlc("MC_C17", cfg, workers=4, timeout=1500, xmx="12g", seed=seed))
        vlib.require_coverage(r, ["PjInit"] + (["PjChoose", "PassChoose"] if "lay" in cfg else []))
        res.add_tlc(r)
        recs = proj_records(r["records"], cfg)
        r["records"] = None
        r["out"] = None
        ntexts += len(recs)
        # non-trivial: the translation has to do something beyond deleting "proj=": several steps, globals,
        # inversion, omissions, a/rf/k, a refusal, or a layout that is not the canonical one
        # (family "pass": texts that contain the word proj -- the others are passed on without being looked at)
        nontrivial += sum(1 for x in recs if ("proj" in x["proj"] if x["fam"] == "pass" else
                                              x["refuse"] or x["choices"] or features(x)
                                              or " step " in x["canon_proj"].replace("proj=pipeline step ", "", 1)))
        if recs:
            samples.append({k: recs[len(recs) // 2][k] for k in ("proj", "ref", "refuse", "expect", "choices")})
        sm, rws = synlib.run_suite("proj", "C17-" + cfg, recs, timeout=1500)
        res.evaluations += sm["evaluations"]
        res.behaviours_replayed += sm["cases"] - len(rws)
        rows += rws
        del recs
    groups = {}
    for sig, rs in synlib.minimal_by_choices(rows, proj_key).items():
        groups.setdefault(signature(sig), []).extend(rs)
    for sig, rs in sorted(groups.items(), key=lambda kv: ("meaning-kept" in kv[0], kv[0].count("+"), kv[0])):
        w = min(rs, key=lambda x: (len(x.get("choices") or []), len(x.get("proj") or "")))
        main = next((f for f in w["fails"] if f["what"] not in TEXT_ONLY), w["fails"][0])
        res.add_violation({"suite": "proj", "what": main["what"], "def": w.get("proj"),
                           "expected": {"reference": w.get("ref"), "refuse": w.get("refuse")},
                           "observed": {"translated": w.get("translated"), "fail": main},
                           "row": {k: w[k] for k in w if k != "observed"}, "occurrences": len(rs),
                           "symptoms": sorted({f["what"] for x in rs for f in x["fails"]}), "signature": sig})
    res.samples = samples
    res.distinct_nontrivial = nontrivial
    res.exhaustive = True
    res.extra["proj_texts"] = ntexts
    res.rule = ("TLC enumerates PROJ definitions over the harness probe operators (every pipeline of <=2 steps (quick) / <=3 "
                "steps (thorough) over t_add with and without its own c, t_dbl, t_failodd x step modifiers inv/omit_fwd/omit_inv "
                "x pipeline-level inv x global argument sets that clash with step-local ones) and checks the reference "
                "translation: inverted pipeline = exact inverse (plans and results), locals win, order kept, omissions keep "
                "their meaning. A second family uses the operators both systems share (cart, helmert, utm, tmerc, merc, lcc, "
                "laea, axisswap, unitconvert, noop, t_gamut; a+rf, k, global ellps; every combination of a/rf/k at pipeline level with "
                "a/rf/k in the step, where the step's own must win) and refusals (init=, nested pipeline); these cases "
                "are rendered in every layout with <=2 (quick) / <=3 (thorough) non-default choices over 9 dimensions ('+' "
                "prefixes, blanks around '=', blank / two blanks / tab between the elements, line per step (not indented, "
                "indented by blanks or by a tab), LF/CR/CRLF, comments, position of proj= and modifiers in a "
                "step, order of the pipeline header, surrounding blanks). A pipeline-level ellps is set against steps that "
                "give a and rf themselves (the step's own ellipsoid must win). A third family is text that is NOT PROJ "
                "syntax: Geodesy definitions of one step (or of several written with < >) that contain the word proj in a "
                "comment, a macro name or a value, rendered by Syntax.tla with continuation lines, comments, line ends, "
                "blanks: parse_proj must return them unchanged and Plain must instantiate them like their canonical "
                "one-line text. Each text is instantiated in a Plain context and "
                "compared with the reference Geodesy text: outcome, steps, step parameters, results in both directions bit "
                "for bit, exact operands for the probes; parse_proj applied twice = once; the reference text passes "
                "parse_proj unchanged; refusals. Non-trivial = texts whose translation involves more than deleting 'proj='.")
    res.assumptions = [
        "probe operators are defined by the harness; built-in operators take part only relationally (their numerics are never an oracle)",
        "PROJ text without a proj=pipeline header is a single operation (several steps without header are not PROJ and are not generated)",
        "ellps given together with a/rf is generated in one constellation only: ellps at pipeline level, a AND rf in the step (the step's own "
        "values win; PROJ too lets a and rf override ellps). Not generated, because neither the statement nor the documentation of parse_proj "
        "decides them ('all other cases ... will fail when instantiating', which they do not: unknown keys are ignored): ellps with a / rf in "
        "the same step (the repo's own test pins 'tmerc ellps=GRS80 a=1'), ellps with only one of a / rf, a / rf at pipeline level against a "
        "step's own ellps, +R, +b, +f, +es (all silently computed on the default or named ellipsoid)",
        "+inv=true is not generated in PROJ text: the statement speaks of inv; PROJ's pipeline recognises the bare word only. (parse_proj hands "
        "inv=true on as a parameter, Geodesy reads it as the modifier: at pipeline level every step is inverted but the order is kept)",
        "blanks other than space and tab (NBSP, form feed, vertical tab) are not generated as separators",
        "text that is not PROJ syntax = no proj= element outside comments; it is compared literally (the statement says 'unchanged'); where only "
        "the text is altered and the meaning kept, the signature says so (not-proj-syntax:text-altered-meaning-kept)",
        "a and rf reaching a step through the pipeline globals mean the same as given in the step (PROJ appends the globals to every step); likewise k",
        "comments whose text contains '|' are not generated (parse_proj documents that such a text 'does not look like a PROJ string' and passes it on unchanged)",
        "k and k_0 given for the same step (directly or through the globals) is not generated: 'k is replaced by k_0 wherever it is encountered' would let the later one win, PROJ itself prefers k_0 whatever the order",
        "the PROJ source keys a, rf, k are not compared in params().given / step texts (the translated ellps and k_0 are): whether overridden occurrences linger as ignored unknown keys is not specified",
        "which error is returned for init= / nested pipelines is not compared, only that op() and parse_proj() return an error",
    ]
    return res.finish()


def replay(path):
    vlib.build_harness(synlib.BIN)
    v = json.load(open(path))
    rec = dict(v["row"])
    rec.pop("fails", None)
    rec.pop("translated", None)
    rec["id"] = "replay"
    sm, rows = synlib.run_suite("proj", "C17-replay", [rec])
    if rows:
        print("VIOLATION property=%s replay=%s" % (PROP, path))
        print(json.dumps(rows[0]["fails"], ensure_ascii=False)[:2000])
        return 1
    print("replay passes on the current tree")
    return 0


def selftest(seed):
    """The binding must bind: a reference text that differs in one value, a corrupted expected operand and a
    wrongly expected refusal have to be noticed, the uncorrupted record must pass."""
    vlib.build_harness(synlib.BIN)
    r = vlib.tlc_must_pass(vlib.tlc("MC_C17", "MC_C17_semq", workers=4, timeout=600, seed=seed))
    recs = [x for x in proj_records(r["records"], "selftest")
            if "omit" not in x["proj"] and x["proj"].count(" step ") == 2 and "c=1" in (x["ref"] or "") and x["expect"]]
    good = dict(recs[0], id="good")
    bad_ref = dict(recs[0], id="bad_ref", ref=recs[0]["ref"].replace("c=1", "c=2", 1), passthrough=[])
    bad_exp = json.loads(json.dumps(dict(recs[0], id="bad_exp")))
    bad_exp["expect"]["F"]["data"][0][0] += 1024
    bad_refuse = dict(recs[0], id="bad_refuse", refuse=True)
    sm, rows = synlib.run_suite("proj", "C17-selftest", [good, bad_ref, bad_exp, bad_refuse])
    got = sorted(w["id"] for w in rows)
    ok = got == ["bad_exp", "bad_ref", "bad_refuse"]
    print("selftest:", "corruptions detected, clean record passes" if ok else "NOT as expected: mismatching %s" % got)
    return 0 if ok else 2
