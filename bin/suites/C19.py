"""C19 — coordinate containers and angular encodings are lossless and consistent."""
import json, os
import vlib

PROP = "C19"
BIN = "gvh_coord"

# TLC record kind -> "t" of the harness input
KINDS = {"SET": "set", "TUPLE": "tuple", "ARITH": "arith", "ANG": "ang"}

# deviation switch of spec/Angular.tla (DEV_zero_degree_field_gives_zero, the `dev0` field of
# an ANG record) -> id of the known finding that names it in known_findings.json
DEVIATIONS = {"DEV_zero_degree_field_gives_zero": "KF-dms-zero-degree-field"}

COORD_ACTIONS = ["DoSet", "Stomp", "DoTup", "Compute"]
ANG_ACTIONS = ["Tick", "Jump"]


def collect(res, tier, seed):
    """Run the TLC instances; returns the list of harness input records."""
    q = tier == "quick"
    w = 4 if q else 8
    recs = []
    coord_cfgs = ["MC_C19_coord_q"] if q else ["MC_C19_coord_t2", "MC_C19_coord_t3"]
    for cfg in coord_cfgs:
        r = vlib.tlc_must_pass(vlib.tlc("MC_C19_coord", cfg, workers=w, timeout=1500, xmx="8g"))
        vlib.require_coverage(r, COORD_ACTIONS if cfg != "MC_C19_coord_t3" else COORD_ACTIONS[:3])
        res.add_tlc(r)
        for kind in ("SET", "TUPLE", "ARITH"):
            for x in r["records"].get(kind, []):
                x["t"] = KINDS[kind]
                recs.append(x)
        r["out"] = ""
    r = vlib.tlc_must_pass(vlib.tlc("MC_C19_ang", "MC_C19_ang_q" if q else "MC_C19_ang_t", workers=w, timeout=1500,
                                    xmx="8g", env={"VERIF_SEED": seed}))
    vlib.require_coverage(r, ANG_ACTIONS)
    res.add_tlc(r)
    slots = r["records"].get("TUP", [])
    if not slots:
        raise vlib.ToolError("Angular.tla did not print the tuple-level expectations (TUP)")
    slots[0]["t"] = "slots"
    recs.append(slots[0])
    angs = r["records"].get("ANG", [])
    r["out"] = ""
    if not angs:
        raise vlib.ToolError("no angles exported by Angular.tla")
    seen = set()
    for x in angs:
        key = (x["A"]["sg"], x["A"]["d"], x["A"]["r"])
        if key in seen:       # the same angle reached on two segments
            continue
        seen.add(key)
        x["t"] = "ang"
        recs.append(x)
    for kind in ("set", "tuple", "arith", "ang"):
        if not any(x["t"] == kind for x in recs):
            raise vlib.ToolError("no %s cases exported" % kind)
    return recs


def harness(tag, recs):
    inp = os.path.join(vlib.WORK, "beh", tag + ".ndjson")
    outp = os.path.join(vlib.WORK, "beh", tag + ".out.ndjson")
    vlib.write_ndjson(inp, recs)
    if os.path.exists(outp):
        os.remove(outp)
    try:
        rc, out = vlib.gvh(["replay", inp, outp], timeout=3000, bin=BIN)
    except vlib.ToolError as e:
        # every library call runs under catch_unwind; being killed by a signal nevertheless (abort,
        # stack overflow) is an observation about the code under test, attributed to the whole batch;
        # any other exit code is a problem of the harness itself
        import re
        m = re.search(r"failed \((-?\d+)\)", str(e))
        if m and int(m.group(1)) < 0:
            return None, [{"t": "batch", "what": "crash of the replayer process", "msg": str(e)[-600:]}]
        raise
    rows = vlib.read_ndjson(outp)
    summary = [x for x in rows if x.get("summary")][0]
    fails = [x for x in rows if not x.get("summary")]
    return summary, fails


def signature(f):
    if f["t"] in ("set", "tuple"):
        k = f.get("kind")
        k = k if isinstance(k, str) else "%s:%s:%s" % (k.get("shape"), k.get("el"), k.get("ad"))
        return "%s|%s|%s" % (f["t"], k, f.get("what"))
    if f["t"] == "arith":
        return "arith|%s|%s|%s" % (f.get("el"), f.get("what"), f.get("route"))
    return "%s|%s|%s" % (f["t"], f.get("what"), f.get("deviation", ""))


def minimal(f):
    """One line a human can run."""
    if f["t"] == "ang" and "input" in f:
        return "angular::%s(%s) = %s, expected %s (angle %s)" % (
            f["what"], json.dumps(f["input"]), f.get("observed"), f.get("expected"), f.get("angle"))
    return None


def classify(res, fails):
    known = {k["id"]: k for k in vlib.known_findings(PROP)}

    def simplicity(f):      # shortest reproduction first: whole minutes, whole seconds, small angles
        r = (f.get("A") or {}).get("r", 0)
        d = (f.get("A") or {}).get("d", 0)
        return (r % 60000 != 0, r % 1000 != 0, r % 1800000 != 0, d, r)
    for f in sorted(fails, key=simplicity):
        dev = f.get("deviation")
        if dev and DEVIATIONS.get(dev) in known:
            res.add_known(DEVIATIONS[dev], known[DEVIATIONS[dev]].get("what", dev))
            continue
        v = {"suite": "coord" if f["t"] != "ang" else "angular", "what": f.get("what"),
             "def": f.get("angle") or json.dumps(f.get("kind") or f.get("el")),
             "expected": f.get("expected"), "observed": f.get("observed"), "case": f,
             "signature": signature(f)}
        m = minimal(f)
        if m:
            v["minimal"] = m
        res.add_violation(v)


def run(tier, seed):
    res = vlib.Result(PROP, tier, seed, "model_checking")
    vlib.build_harness(BIN)
    recs = collect(res, tier, seed)
    summary, fails = harness(PROP, recs)
    if summary:
        res.behaviours_replayed = summary["cases"] - len({json.dumps(f.get("calls") or f.get("A") or f, sort_keys=True) for f in fails})
        res.evaluations = summary["evaluations"]
        res.distinct_nontrivial = summary["nontrivial"]
        res.extra["cases_per_kind"] = summary["per_kind"]
        res.extra["mismatching_comparisons"] = summary["mismatching"]
        res.extra["mismatches_per_what"] = summary["mismatches_per_what"]
        # not a verdict: dd_to_iso_dm / dd_to_iso_dms results whose minutes or seconds group reads 60
        # (e.g. -10060.0 for -1 deg 1 min): the number denotes the right angle, in an unusual spelling
        res.extra["observation_encoder_group_reads_60"] = {
            "comparisons": summary["encoder_group_reads_60"], "samples": summary["encoder_group_reads_60_samples"]}
    res.exhaustive = True
    res.rule = ("Containers: TLC enumerates every sequence of MaxOps writing calls (set_coord, set_xy, set_xyz, set_xyzt, stomp; "
                "tuples: new, set_nth 0..5, set_xy, set_xyz, set_xyzt, fill, update with 0..5 values) over the value pool, for every "
                "container kind (arrays, slices, vecs of Coor2D/3D/4D/Coor32; (T,h,t) over 2D and (T,t) over 2D/3D sets; user containers "
                "and user tuples of 1..5 elements implementing only the required methods); after every call all tuples/elements are read "
                "through get_coord, xy, xyz, xyzt / nth(0..5), x, y, z, t, xy, xyz, xyzt and compared bit for bit with the stored state the "
                "specification derives. Arithmetic: +,-,*,/ by value and by reference, scale, dot (inherent and trait default) on exact "
                "quarter values, NaN and infinities, compared exactly. Angles: every lattice angle walked by Angular.tla (whole arc-seconds "
                "near zero, whole arc-minutes, whole degrees to +-720, 1 mas and 0.001' neighbourhoods of every degree/minute carry, "
                "pseudo-random angles from VERIF_SEED), each through dms_to_dd, dm_to_dd, iso_dm/iso_dms both ways, parse_sexagesimal, "
                "normalize_*, the geo/gis/arcsec/iso_* constructors, AngularUnits and the dm/dms operators, within 1e-9 degree. "
                "Non-trivial = container behaviours whose final read-out differs from the initial one + arithmetic cases + non-zero angles.")
    by_t = {}
    for x in recs:
        by_t.setdefault(x["t"], x)
    res.samples = [by_t[k] for k in ("set", "tuple", "arith", "ang") if k in by_t]
    res.assumptions = [
        "only inputs representable in the signature are generated: dms_to_dd/dm_to_dd(d: i32, ..) get no negative angle with a zero degree field; "
        "minutes/seconds fields are < 60 and non-negative; values written into 32 bit containers are binary32 numbers",
        "container index (as opposed to element index) out of range is not generated: it is ordinary slice indexing, not documented to be safe",
        "(T,h,t) is exercised over 2D sets and (T,t) over 2D and 3D sets only (what their documentation describes); dim() of an adapter is not compared",
        "hypot2/hypot3 and the geodesic distance are numerics outside this property; not compared",
        "normalisation: observed and expected angle are compared modulo a turn, and the result must lie in the closed stated range widened by 1e-9 degree "
        "(at an odd multiple of 180 degrees the binary64 input is not the exact angle, so either end of the range is admissible)",
        "Coor32 constructors: tolerance 1e-9 degree + binary32 rounding of the stored radians",
        "counts returned by the dm/dms operators are not compared here (C10)",
        "parse_sexagesimal: the forms D, D:M, D:M:S[.sss] with either a leading minus or one of N S E W (upper case) appended",
        "results of dd_to_iso_dm / dd_to_iso_dms (and of dm/dms inverse) are judged by the angle they denote under the specification's decoder "
        "(60 seconds = 1 minute): a result such as 10060.0 for 1 deg 1 min, produced when the binary64 degrees lie just below the exact angle, "
        "denotes the right angle; whether the minutes/seconds group may read 60 is not documented, so it is counted "
        "(observation_encoder_group_reads_60) but not judged",
    ]
    classify(res, fails)
    return res.finish()


def replay(path):
    """Re-execute one recorded violation; exit 1 iff it still fails."""
    vlib.build_harness(BIN)
    v = json.load(open(path))
    case = v["case"]
    if case["t"] == "batch":
        print("the replayer process died on the whole batch; re-run bin/check C19")
        return run(v.get("tier", "quick"), v.get("seed", 1))
    # regenerate the cases from the specification and pick the one(s) of the recorded violation
    res = vlib.Result(PROP + "-replay", v.get("tier", "quick"), v.get("seed", 1), "model_checking")
    recs = collect(res, v.get("tier", "quick"), v.get("seed", 1))
    if case["t"] == "ang":
        key = (case["A"]["sg"], case["A"]["d"], case["A"]["r"])
        sel = [x for x in recs if x["t"] == "slots" or (x["t"] == "ang" and (x["A"]["sg"], x["A"]["d"], x["A"]["r"]) == key)]
    elif case["t"] == "arith":
        sel = [x for x in recs if x["t"] == "arith" and all(x[k] == case[k] for k in ("el", "o", "x", "y", "k"))]
    else:
        sel = [x for x in recs if x["t"] == case["t"] and x["kind"] == case["kind"]
               and [c["op"] for c in x["calls"]] == [c["op"] for c in case["calls"]]]
    if not sel or all(x["t"] == "slots" for x in sel):
        raise vlib.ToolError("the recorded case is not generated by the specification any more")
    summary, fails = harness(PROP + "-replay", sel)
    sig = v.get("signature")
    still = [f for f in fails if signature(f) == sig] or fails
    for f in still[:3]:
        print("still fails:", json.dumps({k: f[k] for k in f if k in ("what", "input", "expected", "observed", "angle", "kind", "after")})[:500])
    print("replay: %d case(s) re-executed, %d mismatch(es)" % (len(sel), len(fails)))
    return 1 if still else 0


def selftest(seed):
    """Corrupt one expected value per record family and require the replay to notice."""
    vlib.build_harness(BIN)
    res = vlib.Result(PROP + "-selftest", "quick", seed, "model_checking")
    recs = collect(res, "quick", seed)
    pick = {}
    for x in recs:
        pick.setdefault(x["t"], x)
    s, t, a, g = (json.loads(json.dumps(pick[k])) for k in ("set", "tuple", "arith", "ang"))
    s["calls"][-1]["reads"][0][0] = 4242
    t["calls"][-1]["reads"][0] = 4242
    a["res"][0] = [4242, 4]
    g["A"]["idm"][0] += 1
    _, fails = harness(PROP + "-selftest", [s, t, a, pick["slots"], g])
    got = {f["t"] for f in fails}
    ok = got >= {"set", "tuple", "arith", "ang"}
    print("selftest:", "corruptions detected" if ok else "corruption NOT detected: %s" % sorted(got))
    return 0 if ok else 2
