"""C15 — grid files decode faithfully; damaged files are rejected rather than crashing."""
import json, os, re, struct
import vlib, gridlib

PROP = "C15"
GEODESY = os.path.join(vlib.REPO, "geodesy")

# Deviation switches: outcomes other than {Err, safely queryable grid} the code is known to
# produce, by the stable part of the panic message.  A violating outcome is classified as a
# known finding only if known_findings.json lists the deviation it matches.
DEVIATIONS = [
    ("ntv2", "hang", "", "DEV_ntv2_parent_cycle_hang"),
    ("ntv2", "panic_decode", "out of range for slice", "DEV_ntv2_short_buffer_indexing"),
    ("ntv2", "panic_decode", "index out of bounds", "DEV_ntv2_short_buffer_indexing"),
    ("ntv2", "panic_decode", "multiply with overflow", "DEV_ntv2_count_overflow"),
    ("ntv2", "panic_query", "Option::unwrap()", "DEV_ntv2_no_none_root"),
    ("ntv2", "panic_query", "min > max. min =", "DEV_one_row_or_column_grid"),
    ("ntv2", "panic_query", "either was NaN", "DEV_nonfinite_bounds"),
    ("ntv2", "panic_query", "subtract with overflow", "DEV_one_row_or_column_grid"),
    ("gravsoft", "panic_decode", "divide by zero", "DEV_gravsoft_zero_rows_division"),
    ("gravsoft", "panic_decode", "multiply with overflow", "DEV_gravsoft_count_overflow"),
    ("gravsoft", "panic_query", "min > max. min =", "DEV_one_row_or_column_grid"),
    ("gravsoft", "panic_query", "either was NaN", "DEV_nonfinite_bounds"),
    ("gravsoft", "panic_query", "subtract with overflow", "DEV_one_row_or_column_grid"),
]

RULE = ("TLC enumerates (file) and (file, fault) states. Files: Gravsoft grids of 1/2/3 bands (angular) and 1 band (projected), three "
        "geometries, four text layouts (separators, comments with digits, CRLF, one token per line, everything on one line); NTv2 files of "
        "1-3 sub-grids in every order and both byte orders; files whose header is spelled with exchanged bounds (south > north, west > east, "
        "both; Gravsoft in every band count, NTv2 on the root and on a child): the admissible outcomes are an error or the grid of one reading "
        "of the header, which reproduces the node values of the file at its nodes. Invariants: Decode(Encode(g, layout)) = g, independence of "
        "layout and sub-grid order, and for every fault - the intact file, - every truncation length, every single-bit flip in header records / the header tokens, and the "
        "Corrupt(field, class) table (counts too large / small / zero / huge, NUM_OREC/NUM_SREC != 11, GS_COUNT mismatch, zero / NaN / inf / "
        "negative / tiny / huge increments and bounds, degenerate extents, non-UTF-8 and unknown names, missing NONE root, a sub-grid named "
        "NONE, self-parent) - that the documented decode rule yields Err or a queryable grid on every way the damaged file can look. Binding: "
        "the harness encoder is checked byte for byte against the specification's texts / records, files are decoded by BaseGrid::gravsoft / "
        "Ntv2Grid::new and read back through Grid::at at nodes and Grid::contains at borders; every enumerated fault (also on the shipped "
        "files: every truncation length, every bit of the header records / header line) is applied to the bytes, decoded and queried "
        "(contains / at with margins 0, 0.5, 3 on a lattice plus NaN / inf / huge points, then gridshift or deformation forward and inverse, "
        "then contains / at with every margin class of the specification - 0, 0.5, -0.5, -2, NaN, inf - on a sub-lattice) "
        "under catch_unwind in a child process with a 2 GiB address-space limit and a stall watchdog. The constructor both readers end in, "
        "BaseGrid::plain(header, nodes, offset), is called with the specification's enumeration of node vectors and offsets (none, inside, beyond "
        "the vector, the largest index; padded, cut and missing vectors): an error or a safely queryable grid, node values reproduced where the "
        "grid starts at the offset. Non-trivial = well-formed files read "
        "back + faults whose outcome was not 'decodes and answers every query'.")

ASSUMPTIONS = [
    "a damaged file may decode to any grid: only Err / safely queryable is required, never a particular value",
    "the margin of Grid::contains / at is an argument of the query like the point ('subsequent queries never panic'): every margin class (negative, NaN, infinite) must return; no particular answer is required for them",
    "a header with exchanged bounds may be refused; if it decodes, the grid must be the file under one reading of the exchanged bounds (an unordered pair, or a scan from the bound written first); a non-root NTv2 sub-grid spelled this way is read back off its borders only",
    "BaseGrid::plain is part of decoding (both readers end in it; it is the public way to hand over a decoded header and node vector): calls whose offset + size exceed the vector must give Err or a grid that never reads outside it; consistent calls may be refused",
    "an extent that is no whole number of cells (Gravsoft class 'frac') is a damaged file: Err or any safely queryable grid",
    "the ASCII (.gsa) rendering is read by the harness's own reader (the library has none); compared for the two shipped pairs",
    "thorough: faults on the 2.8 MB deformation grid are enumerated by the driver (strided truncations at line / token boundaries, header bits), not by TLC",
]


def verify_shipped(rec):
    """The catalogue of shipped files in MC_C15.tla must describe the files in /repo."""
    path = os.path.join(GEODESY, rec["shipped"])
    b = open(path, "rb").read()
    if len(b) != rec["len"]:
        raise vlib.ToolError("MC_C15 catalogue out of date: %s has %d bytes, specification says %d" % (rec["shipped"], len(b), rec["len"]))
    hdr = sorted(rec["hdr"])
    if rec["fmt"] == "ntv2":
        be = b[8] != 11
        u32 = lambda o: struct.unpack(">I" if be else "<I", b[o:o + 4])[0]
        want, off = list(range(176)), 176
        for _ in range(u32(40)):
            want += list(range(off, off + 176))
            off += 176 + 16 * u32(off + 168)
    else:
        i, count, end = 0, 0, 0
        while i < len(b) and count < 6:
            c = chr(b[i])
            if c == "#":
                while i < len(b) and b[i] != 10:
                    i += 1
            elif c.isspace():
                i += 1
            else:
                while i < len(b) and not chr(b[i]).isspace() and chr(b[i]) != "#":
                    i += 1
                count, end = count + 1, i
        want = list(range(end))
    if hdr != want:
        raise vlib.ToolError("MC_C15 catalogue out of date: header span of %s" % rec["shipped"])


def deviation_of(fmt, what, msg):
    for f, w, pat, dev in DEVIATIONS:
        if f == fmt and w == what and pat in (msg or ""):
            return dev
    return None


def strip_case(rec, fault=None):
    c = {k: rec[k] for k in rec if k not in ("faults", "lines", "records", "hdr")}
    c["faults"] = [fault] if fault is not None else []
    return c


def record_violations(res, rec, violating, known, source):
    name = rec["shipped"] or "generated %s %s" % (rec["fmt"], rec.get("kind", ""))
    for v in violating:
        dev = deviation_of(rec["fmt"], v["what"], v.get("msg"))
        if dev and dev in known:
            res.add_known(known[dev]["id"], known[dev].get("what", dev))
            continue
        cls = gridlib.panic_class(v.get("msg"))
        ft = v["fault"]
        if v["what"] == "panic_margin":
            # which margin classes made a query panic: negative ones, NaN
            ms = re.findall(r"\[margin ([^\]]+)\]", v.get("msg") or "")
            cls = "+".join(sorted({"NaN" if m == "NaN" else "negative" if m.startswith("-") else m for m in ms}))
        sig = "%s|%s|%s" % (rec["fmt"], v["what"], dev or cls)
        res.add_violation({"suite": "gridfile", "what": v["what"], "def": "%s: %s" % (name, json.dumps(ft)), "deviation": dev,
                           "observed": v.get("msg"), "expected": "Err, or a grid that answers every query", "fault": ft, "source": source,
                           "behaviour": strip_case(rec, ft), "signature": sig})


def big_file_case(seed):
    """Driver-enumerated faults on the 2.8 MB deformation grid (thorough)."""
    rel = "deformation/eur_nkg_nkgrf17vel.deformation"
    b = open(os.path.join(GEODESY, rel), "rb").read()
    n = len(b)
    line_ends = [i + 1 for i, c in enumerate(b) if c == 10]
    cuts = set(line_ends[:: max(1, len(line_ends) // 1500)])
    # token boundaries inside every 211th line; every byte of the first three and the last line; a stride otherwise
    for k in range(0, len(line_ends) - 1, 211):
        s, e = line_ends[k], line_ends[k + 1]
        for i in range(s, e):
            if (b[i] in b" \t") != (b[i - 1] in b" \t\n"):
                cuts.add(i)
    cuts.update(range(0, min(n, line_ends[2] + 1)))
    cuts.update(range(line_ends[-2], n))
    cuts.update(range(0, n, 97 * 29))
    first = line_ends[0]
    faults = [["trunc", c, 0, 0, "", ""] for c in sorted(cuts) if c < n]
    faults += [["flip", off, bit, 0, "", ""] for off in range(first) for bit in range(8)]
    return {"id": 0, "fmt": "gravsoft", "kind": "", "frame": "", "scale": 1, "shipped": rel, "len": n, "faults": faults}


def run(tier, seed):
    res = vlib.Result(PROP, tier, seed, "model_checking")
    vlib.build_harness(gridlib.BIN)
    q = tier == "quick"
    r, recs = gridlib.tlc_records("MC_C15", "MC_C15_q" if q else "MC_C15_t", "FILE", timeout=150 if q else 1500)
    res.add_tlc(r)
    known = {k.get("deviation"): k for k in vlib.known_findings(PROP)}
    for rec in recs:
        if rec["shipped"]:
            verify_shipped(rec)

    # 1. well-formed files: the layout relation against the real readers
    gen = [x for x in recs if not x["shipped"]]
    inp = os.path.join(gridlib.BEH, "C15-wf.ndjson")
    outp = os.path.join(gridlib.BEH, "C15-wf.out.ndjson")
    vlib.write_ndjson(inp, [{k: x[k] for k in x if k != "faults"} for x in gen])
    rc, out = vlib.gvh(["c15wf", inp, outp], bin=gridlib.BIN)
    rows = vlib.read_ndjson(outp)
    wsum = [x for x in rows if x.get("summary")][0]
    tool = [x for x in rows if x.get("tool")]
    if tool:
        raise vlib.ToolError("harness encoder and specification disagree: " + json.dumps(tool[0])[:1500])
    wf_fails = [x for x in rows if not x.get("summary")]
    by_id = {x["id"]: x for x in gen}
    for f in wf_fails:
        rec = by_id.get(f["id"], {})
        res.add_violation({"suite": "gridfile", "what": f["what"], "def": "%s %s %s layout %s spelling %s" % ("spelled" if rec.get("spelled") else "well-formed", rec.get("fmt"), rec.get("kind"), rec.get("file", {}).get("text"), rec.get("file", {}).get("spell")),
                           "detail": f, "behaviour": strip_case(rec) if rec else None, "wellformed": True, "expected": f.get("expected"), "observed": f.get("observed"),
                           "signature": "wf|%s|%s" % (rec.get("fmt"), f["what"])})
    spelled = [x for x in gen if x.get("spelled")]
    if not spelled or any(len(x["alts"]) < 2 for x in spelled):
        raise vlib.ToolError("vacuous: no file with a spelled header (or one without alternative readings)")
    decided = wsum["spelled_rejected"] + sum(wsum["spelled_read"].values()) + sum(1 for f in wf_fails if f["what"] in ("spelled_header_matches_no_reading", "panic_decode_spelled"))
    if decided != len(spelled):
        raise vlib.ToolError("spelled headers not all decided: %d of %d" % (decided, len(spelled)))
    # 1b. the constructor both readers end in
    pl = [x for x in gen if x.get("plain")]
    if not pl:
        raise vlib.ToolError("vacuous: no BaseGrid::plain calls exported")
    pinp = os.path.join(gridlib.BEH, "C15-plain.ndjson")
    poutp = os.path.join(gridlib.BEH, "C15-plain.out.ndjson")
    vlib.write_ndjson(pinp, [{k: x[k] for k in x if k not in ("faults", "lines", "records", "alts")} for x in pl])
    rc, out = vlib.gvh(["plain", pinp, poutp], bin=gridlib.BIN)
    prow = vlib.read_ndjson(poutp)
    psum = [x for x in prow if x.get("summary")][0]
    if psum["calls"] == 0 or psum["err"] + psum["ok"] + sum(1 for x in prow if x.get("what") == "panic_plain") != psum["calls"]:
        raise vlib.ToolError("BaseGrid::plain calls not all decided: %s" % psum)
    for f in [x for x in prow if not x.get("summary")]:
        rec = by_id.get(f["id"], {})
        call = f.get("call", {})
        cls = "none" if call.get("nodes") is None else "some"
        res.add_violation({"suite": "gridfile", "what": f["what"], "def": "BaseGrid::plain(header %s, nodes %s, offset %s) for a grid of %s values" %
                           (call.get("header"), call.get("nodes"), call.get("offset"), call.get("grid_elements")),
                           "detail": f, "behaviour": strip_case(rec) if rec else None, "wellformed": True, "expected": f.get("expected"),
                           "observed": (f.get("query") or {}).get("msg") or f.get("msg") or f.get("observed"),
                           "signature": "plain|%s|nodes=%s|%s" % (f["what"], cls, gridlib.panic_class((f.get("query") or {}).get("msg") or f.get("msg") or ""))})
    # 2. shipped binary files against their ASCII twins
    gout = os.path.join(gridlib.BEH, "C15-gsa.out.ndjson")
    rc, out = vlib.gvh(["gsa", gout], bin=gridlib.BIN)
    grow = vlib.read_ndjson(gout)
    gsum = [x for x in grow if x.get("summary")][0]
    for f in [x for x in grow if not x.get("summary")]:
        res.add_violation({"suite": "gridfile", "what": f["what"], "def": f.get("file"), "detail": f, "signature": "gsa|" + f["what"]})

    # 3. faults
    totals = {"faults": 0, "err": 0, "ok_safe": 0, "violating": 0, "evaluations": 0, "deaths": 0, "not_run": 0}
    per_file = []
    samples = []
    jobs = [(x, "tlc") for x in recs if x["faults"]]
    margins = recs[0]["margins"]
    if len(margins) < 6:
        raise vlib.ToolError("vacuous: the specification's margin classes were not exported")
    if not all(any(ft[0] == "intact" for ft in x["faults"]) for x, _ in jobs):
        raise vlib.ToolError("vacuous: the intact file is not among the queried variants")
    if not q:
        big = big_file_case(seed)
        big["margins"] = margins
        big["faults"].insert(0, ["intact", 0, 0, 0, "", ""])
        jobs.append((big, "driver"))
    for rec, source in jobs:
        tag = "f%03d" % rec["id"] if source == "tlc" else "big"
        rec["faults"].sort(key=lambda ft: ft[0] != "intact")      # the undamaged file first: minimal reproductions
        summ, violating = gridlib.run_faults(rec, tag, stall=6.0 if source == "tlc" else 30.0)
        for k in totals:
            totals[k] += summ.get(k, 0)
        per_file.append({"file": rec["shipped"] or "generated %s %s #%d" % (rec["fmt"], rec["kind"], rec["id"]), "enumerated_by": source, **summ})
        record_violations(res, rec, violating, known, source)
        if len(samples) < 4 and source == "tlc":
            samples.append({"file": per_file[-1]["file"], "faults": rec["faults"][:3] + rec["faults"][-2:]})
    if totals["not_run"]:
        res.uncovered.append("%d fault(s) not run after repeated deaths of the child process" % totals["not_run"])
    res.behaviours_replayed = (wsum["cases"] - len({f["id"] for f in wf_fails})) + totals["err"] + totals["ok_safe"] + gsum["files"] + psum["err"] + psum["ok"]
    res.evaluations = wsum["evaluations"] + gsum["evaluations"] + totals["evaluations"] + psum["evaluations"]
    res.distinct_nontrivial = wsum["cases"] + totals["err"] + totals["violating"] + psum["calls"]
    res.extra["wellformed"] = wsum
    res.extra["plain_constructor"] = psum
    res.extra["gsa_vs_gsb"] = gsum
    res.extra["fault_outcomes"] = totals
    res.extra["fault_outcomes_per_file"] = per_file
    classes = {}
    for v in res.violations:
        classes[v["signature"]] = classes.get(v["signature"], 0) + 1
    res.extra["violation_classes"] = classes
    res.exhaustive = True
    res.rule = RULE
    res.assumptions = ASSUMPTIONS
    res.samples = samples
    return res.finish()


def replay(path):
    vlib.build_harness(gridlib.BIN)
    v = json.load(open(path))
    b = v.get("behaviour")
    if not b:
        print("replay file has no case")
        return 2
    if v.get("wellformed"):
        inp = os.path.join(gridlib.BEH, "C15-replay.ndjson")
        outp = os.path.join(gridlib.BEH, "C15-replay.out.ndjson")
        print("well-formed cases need the specification's rendering: re-run bin/check C15")
        return run("quick", 1)
    summ, violating = gridlib.run_faults(b, "replay")
    if violating:
        print("VIOLATION property=%s replay=%s" % (PROP, path))
        print(json.dumps(violating[0])[:1500])
        return 1
    print("replay passes on the current tree: outcome", {k: summ[k] for k in ("err", "ok_safe")})
    return 0


def selftest(seed):
    """(a) a harness encoder that disagrees with the specification's text must be noticed;
    (b) the fault runner must report a panic, an abort and a hang of the code under test and
    carry on with the faults after them."""
    vlib.build_harness(gridlib.BIN)
    r, recs = gridlib.tlc_records("MC_C15", "MC_C15_q", "FILE", timeout=150)
    g = json.loads(json.dumps(next(x for x in recs if not x["shipped"] and x["fmt"] == "gravsoft")))
    g["file"]["subs"][0]["nodes"][0][0][0] += 64
    inp = os.path.join(gridlib.BEH, "C15-selftest.ndjson")
    outp = os.path.join(gridlib.BEH, "C15-selftest.out.ndjson")
    vlib.write_ndjson(inp, [{k: g[k] for k in g if k != "faults"}])
    exe = vlib.build_harness(gridlib.BIN)
    import subprocess
    p = subprocess.run([exe, "c15wf", inp, outp], cwd=vlib.VERIF, stdout=subprocess.PIPE, stderr=subprocess.STDOUT, text=True)
    a_ok = p.returncode == 2 and any(x.get("tool") for x in vlib.read_ndjson(outp))
    case = strip_case(next(x for x in recs if x["shipped"] == "geoid/test.geoid"))
    case["margins"] = []          # the runner's three detection paths are tested here, not the code under test
    ok_fault = ["trunc", 363, 0, 0, "", ""]
    case["faults"] = [ok_fault, ["selftest_panic", 0, 0, 0, "", ""], ok_fault, ["selftest_abort", 0, 0, 0, "", ""], ok_fault,
                      ["selftest_hang", 0, 0, 0, "", ""], ok_fault]
    summ, violating = gridlib.run_faults(case, "selftest", stall=3.0)
    kinds = sorted(v["what"] for v in violating)
    b_ok = kinds == ["abort", "hang", "panic_decode"] and summ["ok_safe"] == 4
    print("selftest: encoder/spec disagreement %s; panic, abort, hang %s (%s, %s)" %
          ("detected" if a_ok else "NOT detected", "detected" if b_ok else "NOT detected", kinds, summ))
    return 0 if a_ok and b_ok else 2
