"""C13 — projection parameters follow common conventions; derived operators match theirs.

spec/ProjParams.tla resolves written definitions of the ten plane projections into records, partitions
them into classes of equal (uninterpreted) core and derives the exact affine relation between any two
members:  A(lon, lat) = sa + rho * (B(lon - dlon deg, lat) - sb).  This driver compares the real operators
pairwise over a point lattice in both directions, the resolved integers with params(), and the noop aliases
with the identity."""
import json, math, os, collections
import vlib, scriptlib

PROP = "C13"
# the relations are exact in real arithmetic; in binary64 a few ulps of the magnitudes involved are admitted
LIN = {"tol": 1e-9, "ulps": 16, "lon_ulps": 16}  # metres; lon_ulps: ulp(pi) of longitude rounding, on the ground, when lon_0 differs
ANG = {"atol": 1e-9 / 6.3e6, "ulps": 16}        # radians: 1e-9 m on the ground + 16 ulp of pi
NOOP_DATA = [[0.2094395102393195, 0.9599310885968813, 100.0, 2020.5], [-0.0, 0.0, "NaN", "NaN"],
             ["NaN", "NaN", "NaN", "NaN"], [1e300, -1e-300, "inf", "-inf"], [691875.632139661, 6098907.825005012, -12.0, 0.0]]


def points(d):
    out = []
    for dl in d["dlons"]:
        for la in d["lats"]:
            out.append([math.radians(d["lonc"] + dl / 10.0), math.radians(la / 10.0), 0.0, 0.0])
    return out


def es_of(rf):
    """squared eccentricity of an ellipsoid given as the text of its reciprocal flattening, or a built-in sphere"""
    if rf in ("sphere", "unitsphere"):
        return 0.0
    f = 1.0 / float(rf)
    return f * (2.0 - f)


AXES = {"sphere": 6370997.0, "unitsphere": 1.0, "intl": 6378388.0}


def ground(d):
    """metres per radian of the definition: k_0 * a (how far a rounding error of the longitude reaches)"""
    a = 6378137.0
    for tok in d["def"].split():
        if tok.startswith("ellps="):
            v = tok[6:]
            a = float(v.split(",")[0]) if "," in v else AXES.get(v, 6.4e6)
    k = d["k"][0] / d["k"][1] if d["k"] else 1.0
    if d["latts"] != "None":
        k = math.cos(math.radians(d["latts"]))      # close enough for a tolerance
    return a * k


def kind_of(row):
    """which conventions a row exercises"""
    t = row.split("|")
    ks = []
    if t[8] == "same":
        return "identical"
    if (t[4], t[5]) != (t[6], t[7]):
        ks.append("false-origin")
    if t[3] != "0":
        ks.append("lon_0")
    if (t[1], t[2]) != ("1", "1"):
        ks.append("scale")
    return "+".join(ks) or "equal"


def build(defs):
    cases, beh = [], []
    nontrivial = 0
    kevals = 0
    for d in defs:
        if d["proj"] in ("noop", "longlat", "latlon", "latlong", "lonlat"):
            beh.append({"id": len(beh), "ctx": "minimal", "kind": "noop",
                        "calls": [{"do": "op", "def": d["def"], "as": "h", "ok": True},
                                  {"do": "apply", "h": "h", "dir": "F", "data": NOOP_DATA, "expect": {"unchanged": True}},
                                  {"do": "apply", "h": "h", "dir": "I", "data": NOOP_DATA, "expect": {"unchanged": True}}]})
            nontrivial += 1
            continue
        pts = points(d)
        rows = sorted(d["rows"])
        nontrivial += sum(1 for r in rows if kind_of(r) != "equal")
        if rows:
            cases.append({"id": len(cases), "k": "projdef", "tag": "class", "def": d["def"], "points": pts, "rows": rows, "lin": LIN, "ang": ANG, "ground": ground(d),
                          # a latitude of origin is removed inside the operator (k_0 * meridian arc of lat_0): rounding at that magnitude
                          "origin": ground(d) * math.pi / 2 if "lat_0=" in d["def"] and d["proj"] in ("tmerc", "btmerc") else 0.0})
        # resolved record vs params()
        real = {}
        if d["x0"] != "None":
            real["x_0"] = [float(d["x0"])]
        if d["y0"] != "None":
            real["y_0"] = [float(d["y0"])]
        if d["k"]:
            real["k_0"] = [d["k"][0] / d["k"][1]]
        if d["lon0"] != "None":
            real["lon_0"] = [float(d["lon0"]), math.radians(d["lon0"])]
        if real:
            cases.append({"id": len(cases), "k": "params", "tag": "params", "def": d["def"], "rtol": 1e-15, "real": real})
        # R8: lat_ts is the corresponding k_0 (closed form of the statement, evaluated here: outside the model)
        if d["ktwin"]:
            phi = math.radians(d["latts"])
            k0 = math.cos(phi) / math.sqrt(1.0 - es_of(d["rf"]) * math.sin(phi) ** 2)
            kevals += 1
            twin = d["ktwin"].replace("{K}", repr(k0))
            cases.append({"id": len(cases), "k": "projdef", "tag": "lat_ts", "def": d["def"], "points": pts,
                          "rows": ["%s|1|1|0|%s|%s|%s|%s|rel" % (twin, d["x0"], d["y0"], d["x0"], d["y0"])], "lin": LIN, "ang": ANG,
                          "ground": ground(d), "k0": k0})
            nontrivial += 1
    return beh, cases, nontrivial, kevals


def run_rel(tag, cases, timeout=3000):
    inp = os.path.join(vlib.WORK, "beh", tag + ".rel.ndjson")
    outp = os.path.join(vlib.WORK, "beh", tag + ".rel.out.ndjson")
    vlib.write_ndjson(inp, cases)
    rc, out = vlib.gvh(["replay", inp, outp], timeout=timeout, bin="gvh_rel")
    rows = vlib.read_ndjson(outp)
    summary = [x for x in rows if x.get("summary")][0]
    fails = [x for x in rows if not x.get("summary") and x.get("what") != "more"]
    return summary, fails


def relation_kind(c):
    r = c.get("relation")
    if not r:
        return c.get("tag", "?")
    ks = []
    if r["sa"] != r["sb"]:
        ks.append("false-origin")
    if r["dlon_deg"] != "0":
        ks.append("lon_0")
    if r["rho"] != ["1", "1"]:
        ks.append("scale")
    return "+".join(ks) or "equal"


def scale_source(a, b):
    ka = [t for t in a.split() if t.startswith(("k_0=", "ellps=", "lat_ts="))]
    kb = [t for t in b.split() if t.startswith(("k_0=", "ellps=", "lat_ts="))]
    src = set(t.split("=")[0] for t in set(ka) ^ set(kb))
    return ",".join(sorted(src))


def run(tier, seed):
    res = vlib.Result(PROP, tier, seed, "model_checking")
    vlib.build_harness()
    vlib.build_harness("gvh_rel")
    q = tier == "quick"
    r = vlib.tlc_must_pass(vlib.tlc("MC_C13", "MC_C13_q" if q else "MC_C13_t", workers=4, timeout=600 if q else 1600, xmx="8g"))
    vlib.require_coverage(r, ["Pick"])
    res.add_tlc(r)
    defs = r["records"].get("DEF", [])
    if not defs:
        raise vlib.ToolError("no DEF records exported")
    projs = collections.Counter(d["proj"] for d in defs)
    for p in ("merc", "webmerc", "tmerc", "utm", "btmerc", "butm", "lcc", "laea", "omerc", "somerc", "noop"):
        if not projs.get(p):
            raise vlib.ToolError("vacuous: no definition of " + p)
    zones = set(d["def"].split("zone=")[1].split()[0] for d in defs if d["proj"] == "utm")
    if len(zones) != 60:
        raise vlib.ToolError("vacuous: %d utm zones" % len(zones))
    beh, cases, nontrivial, kevals = build(defs)
    summary, mism = scriptlib.replay_scripts(PROP, beh)
    rsum, rfails = run_rel(PROP, cases)
    res.behaviours_replayed = (summary["behaviours"] - len(mism)) + (rsum["cases"] - rsum["mismatching"])
    res.evaluations = summary["evaluations"] + rsum["evaluations"]
    res.distinct_nontrivial = nontrivial
    res.assumption_evaluations = kevals
    res.exhaustive = True
    res.extra["definitions"] = dict(projs)
    res.extra["pairs"] = sum(len(d["rows"]) for d in defs)
    res.extra["pairs_by_convention"] = dict(collections.Counter(kind_of(x) for d in defs for x in d["rows"]))
    res.extra["params_compared"] = rsum.get("params_compared", 0)
    res.uncovered = ["resolved parameter not exposed by params(): %s (%d definitions)" % (k, n) for k, n in rsum.get("unexposed", {}).items()]
    # drift between the ellipsoid names the specification sweeps (thorough) and the code's table: reported, not judged
    rc, out = vlib.gvh(["ellipsoids"], bin="gvh_rel")
    code_names = set(json.loads(out.strip().splitlines()[-1]))
    swept = set(tok[6:] for d in defs for tok in d["def"].split() if tok.startswith("ellps=") and "," not in tok)
    res.extra["named_ellipsoids_swept"] = len(swept)
    if not q:
        res.uncovered += ["built-in ellipsoid in the code's table not swept by the specification: " + n for n in sorted(code_names - swept)]
        res.uncovered += ["ellipsoid name swept by the specification but unknown to the code's table: " + n for n in sorted(swept - code_names)]
    res.rule = ("TLC enumerates written definitions of the ten plane projections over a lattice of x_0, y_0, k_0, lon_0 and the semi-major axis "
                "(given as 'a,rf' with a = m * 6378137), shape variants (lcc one/two parallels, laea oblique/equatorial/polar, omerc variants A/B), "
                "utm/butm for all 60 zones and both hemispheres with their explicit tmerc/btmerc twins, merc with lat_ts, merc/webmerc on the built-in spheres "
                "and the noop aliases; resolves them, and for every pair of one class (quick: canonical member, one-parameter neighbours, identical twins; "
                "thorough: all pairs) derives A = sa + rho*(B(lon - dlon) - sb) in exact rationals. Every pair is applied to a lattice of 9-12 points of the "
                "domain forward and (on the forward results) inverse: bit-identical for utm/tmerc, butm/btmerc; 1e-9 m + 16 ulp (forward) and the angular "
                "equivalent (inverse) otherwise. Resolved x_0, y_0, k_0 (and the UTM integers) are compared with params(). Non-trivial = pairs whose "
                "relation is not the identity or whose texts differ while results must be identical + noop alias definitions.")
    byk = {}
    for c in cases:
        if c["k"] == "projdef":
            for row in c["rows"]:
                byk.setdefault(kind_of(row) if c["tag"] == "class" else "lat_ts", {"def": c["def"], "row": row, "points": c["points"][:2]})
    res.samples = list(byk.values())[:6]
    res.assumptions = [
        "lat_ts <-> k_0: k_0 = cos(phi)/sqrt(1 - e^2 sin^2(phi)) is evaluated in the driver (numeric step outside the model), counted in assumption_evaluations; e^2 from the rf written in the definition (or 0 for the built-in spheres)",
        "relations are compared to 1e-9 m + 16 ulp of the largest magnitude involved (false origins; for tmerc/btmerc with lat_0 also the meridian arc k_0 a pi/2 that the operator removes internally) (forward; plus k_0*a*16 ulp(pi) where lon_0 differs, because lon - lon_0 is rounded at the magnitude of the longitudes), 1e-9 m / a + 16 ulp(pi) + 16 ulp(false origin)/(k_0*a) radians (inverse, longitudes modulo 2 pi)",
        "lat_0 of merc/tmerc/btmerc, lonc of omerc and lat_ts together with k_0 are outside the statement and never written; lat_0 appears only as a fixed shape parameter (lcc, laea, somerc)",
        "parameters a projection does not list (k_0 for laea, lon_0 for omerc, everything but ellps for webmerc) are never written",
        "semi-major axis scaling uses the 'a,rf' spelling of ellipsoids; merc/webmerc on a sphere use the built-in spheres (sphere, unitsphere)",
        "third and fourth elements are not compared except for the identical twins and the noop aliases; counts of the noop aliases are not compared",
        "params(): lon_0 of utm/butm is accepted in degrees or radians; keys not exposed are reported as uncovered, not judged",
    ]
    for m in mism:
        b = m["behaviour"]
        f0 = m["fails"][0]
        d0 = b["calls"][0]["def"]
        res.add_violation({"suite": "proj-noop", "behaviour": b, "fails": m["fails"][:4], "def": d0, "what": f0["what"],
                           "signature": "noop|%s|%s" % (f0["what"], d0.split()[0])})
    for f in rfails:
        c = f["case"]
        if c.get("k") == "rel":
            a, bb = c["a"]["def"], c["b"]["def"]
            rk = relation_kind(c)
            sig = "%s|%s|%s|%s|%s" % (a.split()[0], bb.split()[0], c.get("tag"), rk + (":" + scale_source(a, bb) if "scale" in rk else ""), f["what"])
            res.add_violation({"suite": "proj-" + str(c.get("tag")), "case": c, "what": f["what"], "def": a, "partner": bb,
                               "relation": c.get("relation"), "detail": f["detail"], "signature": sig})
        else:
            res.add_violation({"suite": "proj-" + str(c.get("tag")), "case": c, "what": f["what"], "def": c.get("def"), "detail": f["detail"],
                               "signature": "%s|%s|%s" % (c.get("tag"), f["what"], str(c.get("def")).split()[0])})
    return res.finish()


def replay(path):
    vlib.build_harness()
    vlib.build_harness("gvh_rel")
    with open(path) as f:
        v = json.load(f)
    if v.get("behaviour"):
        return scriptlib.replay_one(path, PROP)
    summary, fails = run_rel("replay-" + PROP, [v["case"]])
    if fails:
        print("VIOLATION property=%s replay=%s" % (PROP, path))
        print(json.dumps(fails[0]["detail"])[:2000])
        return 1
    print("replay passes on the current tree")
    return 0


def selftest(seed):
    """Corrupt one derived relation and require the replay to notice."""
    vlib.build_harness("gvh_rel")
    r = vlib.tlc_must_pass(vlib.tlc("MC_C13", "MC_C13_q", workers=4, timeout=600, xmx="8g"))
    defs = [d for d in r["records"]["DEF"] if d["proj"] == "tmerc" and d["rows"]][:3]
    beh, cases, _, _ = build(defs)
    base, _ = run_rel(PROP + "-selftest", cases)
    c = next(c for c in cases if c["k"] == "projdef")
    t = c["rows"][0].split("|")
    t[4] = str(int(t[4]) + 1)          # one metre of false easting
    c["rows"][0] = "|".join(t)
    _, fails = run_rel(PROP + "-selftest", cases)
    ok = len(fails) > base["mismatching"]
    print("selftest:", "corruption detected" if ok else "corruption NOT detected")
    return 0 if ok else 2
