"""C08 — grid lookup is bilinear, first-hit among grids, finest sub-grid within a file."""
import json, os
import vlib, gridlib

PROP = "C08"

# deviation switches: what the code is known to do instead of the reference (classified only
# when the observation equals exactly that deviated prediction; the harness decides that)
DEVIATIONS = {
    "outside_inverse_unchanged_uncounted": "DEV_gridshift_inv_outside_unchanged",
    "deformation_epoch_sign_reversed": "DEV_deformation_epoch_sign",
}

RULE = ("TLC enumerates (scenario, point) states: one-grid scenarios (rows, cols in 2..4, square and non-square cells, 1/2/3 bands, "
        "Gravsoft angular, Gravsoft projected, NTv2 both byte orders) on the eighth-cell lattice from two cells outside; grids= lists of "
        "up to 3 entries over three overlapping grids with @optional (present / missing), required-missing and @null entries in every "
        "position - among them the lists whose every grid is optional and missing, with and without @null, for every operator; three grids "
        "sharing a border and a corner in every order; NTv2 trees of up to 4 sub-grids (child, siblings, overlapping siblings, grandchild, "
        "two roots, a consistent densification) in permuted file orders; one-grid files whose header is spelled with exchanged bounds "
        "(south > north, west > east, both; Gravsoft and NTv2): refused, or the grid of one reading of the header at every point. Invariants: node reproduction, corner range, equality of one-sided evaluations on cell edges, linear continuation through "
        "the margin, first hit / first within margin / null / none, deepest sub-grid independent of file order, continuity across consistent "
        "sub-grid borders, operator conventions, no grid left => every point outside, node reproduction under every reading of a spelled "
        "header, the admissible ends of a chain of overlapping sub-grids. Every scenario is encoded by the harness, decoded by the real readers and queried through "
        "Grid::contains / at, grids_at and gridshift / deformation / deflection in a harness Context; values compared to 1e-6 of the largest "
        "node value (f32 storage) for angular grids, exactly for projected grids. Non-trivial = distinct (scenario, operator, point) whose "
        "expected result is a grid-derived correction, plus scenarios whose instantiation must be refused.")

ASSUMPTIONS = [
    "points exactly on the outer edge of the half-cell margin are not generated (lattice in eighths of a cell)",
    "NTv2: points on the northern / eastern border of a sub-grid (and of a root when another root is within reach) are not compared unless parent and child agree there ('upper border belongs to the neighbour' is only in a code comment)",
    "@null is documented only as the last entry: lists where 'null ends the list' and 'null is a flag' give different answers are not compared",
    "a grids= list whose every grid is optional and missing: the documentation of `grids` says only that such grids do not block instantiation; no grid is left, so every point is outside the grid coverage: it fails, or passes unchanged with @null (compared for gridshift, deformation, deflection)",
    "deflection: sign convention of (xi, eta) is not documented: magnitudes and order only, 1e-3 relative (the operator is documented as a coarse estimate)",
    "a header with exchanged bounds may be refused; if it is decoded, the grid must be the file under one of the readings (bounds as an unordered pair, or scan from the bound written first) at every lattice point",
    "overlapping NTv2 siblings (forbidden by the NTv2 specification): any sub-grid that contains the point, is reached through containing ancestors and has no child containing it is admissible; only Grid::at is compared there, at points off every northern / eastern border",
    "an operator given a grid of another dimensionality than documented (gridshift with 3 bands, deformation with 1 or 2, deflection with 2 or 3): refusal or any result is admissible, only a panic is reported",
    "inverse 2-D grid shift: checked as forward(inverse(p)) = p to 1e-11 rad and to first order against the specification's value, at points strictly inside a cell and a selection region",
    "deformation: compared at points strictly inside a selection region (the operator recomputes the geographic position from cartesian coordinates); ENU -> XYZ rotation by the textbook formula in the harness",
    "after a failure only 'count excludes the tuple' and 'the tuple carries NaN' are compared (C10's abstraction)",
]


def scenario_lines(recs):
    return {r["id"]: r for r in recs}


def replay_grid(tag, recs, timeout=3000):
    inp = os.path.join(gridlib.BEH, tag + ".ndjson")
    outp = os.path.join(gridlib.BEH, tag + ".out.ndjson")
    vlib.write_ndjson(inp, recs)
    rc, out = vlib.gvh(["c08", inp, outp], timeout=timeout, bin=gridlib.BIN)
    rows = vlib.read_ndjson(outp)
    summary = [x for x in rows if x.get("summary")][0]
    return summary, [x for x in rows if not x.get("summary")]


def classify(res, fails, by_id):
    known = {k.get("deviation"): k for k in vlib.known_findings(PROP)}
    for f in fails:
        what = f["what"]
        dev = DEVIATIONS.get(what)
        sc = f.get("scenario", {})
        if dev and dev in known:
            res.add_known(known[dev]["id"], known[dev].get("what", what))
            continue
        if what.startswith("no_grid_left_not_failed"):
            sig = what
        elif what == "spelled_header_matches_no_reading":
            sig = "%s|%s" % (what, sc.get("fmt"))
        else:
            sig = what if dev else "%s|%s|%s|%s" % (what, sc.get("name"), sc.get("kind"), sc.get("fmt"))
        res.add_violation({"suite": "grid", "what": what, "def": (f.get("p") or {}).get("def") or f.get("def"),
                           "deviation": dev, "detail": f, "behaviour": by_id.get(f.get("sc")), "signature": sig,
                           "expected": f.get("expected"), "observed": f.get("observed")})


def run(tier, seed):
    res = vlib.Result(PROP, tier, seed, "model_checking")
    vlib.build_harness(gridlib.BIN)
    q = tier == "quick"
    r, recs = gridlib.tlc_records("MC_C08", "MC_C08_q" if q else "MC_C08_t", "SCEN", timeout=150 if q else 1500, xmx="6g" if q else "10g")
    res.add_tlc(r)
    summary, fails = replay_grid(PROP, recs)
    bad = {f.get("sc") for f in fails}
    res.behaviours_replayed = summary["scenarios"] - len(bad)
    res.evaluations = summary["evaluations"]
    res.distinct_nontrivial = summary["nontrivial"]
    res.extra["points_compared"] = summary["compared"]
    res.extra["points_not_compared"] = summary["not_compared"]
    res.extra["mismatches_by_class"] = summary["per_key"]
    for k in ("spelled_rejected", "spelled_read", "spelled_failed", "empty_list_compared", "oneof_compared", "cross_calls"):
        res.extra[k] = summary[k]
    # vacuity guards of the widened parts of the catalogue
    spelled = [x for x in recs if x.get("spelled")]
    if not spelled or any(len(x["alts"]) < 2 for x in spelled):
        raise vlib.ToolError("vacuous: no scenario with a spelled header (or one without alternative readings)")
    if summary["spelled_rejected"] + sum(summary["spelled_read"].values()) + summary["spelled_failed"] != len(spelled):
        raise vlib.ToolError("spelled headers were not all decided")
    if summary["empty_list_compared"] == 0 or summary["oneof_compared"] == 0 or summary["cross_calls"] == 0:
        raise vlib.ToolError("vacuous: empty lists / overlapping siblings / cross-dimensional operator calls were not exercised: %s" %
                             {k: summary[k] for k in ("empty_list_compared", "oneof_compared", "cross_calls")})
    res.exhaustive = True
    res.rule = RULE
    res.assumptions = ASSUMPTIONS
    small = [x for x in recs if len(x["pts"]) < 400]
    res.samples = [{k: (x[k] if k != "pts" else x[k][:6]) for k in ("name", "kind", "fmt", "list", "refused", "pts")} for x in small[:: max(1, len(small) // 4)]][:4]
    classify(res, fails, scenario_lines(recs))
    return res.finish()


def replay(path):
    vlib.build_harness(gridlib.BIN)
    v = json.load(open(path))
    b = v.get("behaviour")
    if not b:
        print("replay file has no scenario")
        return 2
    summary, fails = replay_grid(PROP + "-replay", [b])
    same = [f for f in fails if f["what"] == v.get("what")]
    if same:
        print("VIOLATION property=%s replay=%s" % (PROP, path))
        print(json.dumps({k: same[0].get(k) for k in ("what", "p", "dir", "count", "expected", "observed")})[:1500])
        return 1
    print("replay passes on the current tree (%d other mismatches)" % len(fails))
    return 0


def selftest(seed):
    """Corrupt one expected value / one expected selection and require the replay to notice."""
    vlib.build_harness(gridlib.BIN)
    r, recs = gridlib.tlc_records("MC_C08", "MC_C08_q", "SCEN", timeout=150)
    a = json.loads(json.dumps(next(x for x in recs if x["name"] == "single" and x["kind"] == "datum")))
    hit = next(p for p in a["pts"] if p[2] == 2)
    hit[6] += 64 * hit[5]          # one node-value unit
    b = json.loads(json.dumps(next(x for x in recs if x["name"] == "list" and len(x["list"]) == 2 and x["refused"] == 0 and len(set(x["effective"])) == 2 and not x["null"])))
    b["list"].reverse()
    b["effective"].reverse()
    s1, f1 = replay_grid(PROP + "-selftest", [a, b])
    ok = any(f["sc"] == a["id"] and f["what"] in ("at_value", "grids_at_value", "shift_value") for f in f1) and \
        any(f["sc"] == b["id"] and f["what"] in ("grids_at_value", "shift_value") for f in f1)
    print("selftest:", "corruptions detected" if ok else "corruption NOT detected")
    return 0 if ok else 2
