"""C04 — a macro invocation means its expansion, and macro resolution always terminates."""
import json, os, collections
import vlib, scriptlib, pipelib

PROP = "C04"


def workers(n):
    """TLC workers: n, unless VERIF_TLC_WORKERS caps it (shared machine)"""
    return max(1, min(n, int(os.environ.get("VERIF_TLC_WORKERS", n))))


LEAF = "t_add e=1 c=1"
DATA = [[2048, 12288, 13312, 14336]]


def signature(m):
    """failure | kind of behaviour | family of the macro invoked (m:fd_a_z -> m:fd; guard graphs: the invocation)"""
    b = m["behaviour"]
    d = b["calls"][0]["def"]
    return "%s|%s|%s" % (m["fails"][0]["what"], b.get("kind"), pipelib.family(d))


def guard_behaviour(i, x):
    """Resource graph from MacroGuard.tla -> op() must return (Ok or Err as predicted) in bounded time."""
    g = x["graph"]
    resources = {n: " | ".join(LEAF if s == "leaf" else s for s in body) for n, body in g.items()}
    depth_ok = cyc_or_depth(g, x["start"], x["cyclic"]) <= 12   # equivalence with the expansion is required up to 12 levels of nesting
    if x["cyclic"]:
        ok = False
    elif x["result"] == "ok" and depth_ok:
        ok = True
    else:
        ok = None                    # deeper than 12 levels: Ok or Err are both admitted, but it must return
    calls = [{"do": "op", "def": x["start"], "as": "h", "ok": ok}]
    if not x["cyclic"]:
        # if it instantiates, it must be the expansion: work leaves, each adding 1 to the first element
        w = count_leaves(g, x["start"])
        calls.append({"do": "apply", "h": "h", "dir": "F", "data": DATA,
                      "expect": {"count": 1, "data": [[2048 + 1024 * w, 12288, 13312, 14336]]}})
    return {"id": i, "ctx": "minimal", "resources": resources, "calls": calls, "kind": "guard"}


def cyc_or_depth(g, n, cyclic):
    if cyclic:
        return 10 ** 6
    return 1 + max([0] + [cyc_or_depth(g, s, False) for s in g[n] if s != "leaf"])


def count_leaves(g, n):
    return sum(1 if s == "leaf" else count_leaves(g, s) for s in g[n])


def run(tier, seed):
    res = vlib.Result(PROP, tier, seed, "model_checking")
    vlib.build_harness()
    cfgs = ["MC_C04_q"] if tier == "quick" else ["MC_C04_t"]
    behaviours = []
    nontrivial = set()
    for cfg in cfgs:
        r = vlib.tlc_must_pass(vlib.tlc("MC_C04", cfg, workers=workers(8 if tier == "quick" else 14), timeout=3400, xmx="12g"))
        vlib.require_coverage(r, ["InstFail", "DispatchNext", "StepLeaf", "StepEnter", "Return"])
        res.add_tlc(r)
        for x in r["records"].get("REPLAY", []):
            behaviours += pipelib.to_behaviours(len(behaviours), x, relational=False)
            if (not x["ok"]) or any(a["data"] != x["data"] for a in x["apps"]):
                nontrivial.add(x["def"])
    # ---- the same structures with a built-in whose parameter the context also supplies as a global
    # (cart / ellps for t_add / c; the model is run with the global c = 1, i.e. ellps = GRS80)
    for cfg in (["MC_C04_qg"] if tier == "quick" else ["MC_C04_tg"]):
        r = vlib.tlc_must_pass(vlib.tlc("MC_C04", cfg, workers=workers(8 if tier == "quick" else 14), timeout=3400, xmx="12g"))
        res.add_tlc(r)
        for x in r["records"].get("REPLAY", []):
            behaviours.append(pipelib.ellps_behaviour(len(behaviours), x))
    # ---- termination: every resource graph over three names (all cycles), long chains and long cycles
    gb = []
    for cfg, wanted in (("MC_C04_guard", True), ("MC_C04_chains", True)):
        r = vlib.tlc_must_pass(vlib.tlc("MC_C04_guard", cfg, workers=workers(8), timeout=1700))
        vlib.require_coverage(r, ["StepLeaf", "Descend", "Refuse", "Return"])
        if "Termination" not in r["out"] and "temporal" not in r["out"].lower():
            pass
        res.add_tlc(r)
        for x in r["records"].get("REPLAY", []):
            gb.append(guard_behaviour("g%d" % len(gb), x))
            if x["cyclic"]:
                nontrivial.add("cyclic:" + json.dumps(x["graph"], sort_keys=True) + x["start"])
    behaviours += gb
    # ---- macro invocations as steps: the protocol of spec/Runtime.tla on a spread of them (guard graphs excluded:
    # ---- deep chains are refused at instantiation and never applied)
    import rtlib
    rtlib.check_harness(res, PROP, [b for b in behaviours if not str(b.get("id", "")).startswith("g")], 1500 if tier == "quick" else 10000)
    summary, mism = scriptlib.replay_scripts(PROP, behaviours, per_chunk_timeout=600)
    res.behaviours_replayed = summary["behaviours"] - len(mism)
    res.evaluations = summary["evaluations"]
    res.distinct_nontrivial = len(nontrivial)
    res.rule = ("TLC enumerates invocations (alone and as a pipeline step, plain and inverted, three modifier layouts) of 116 macros "
                "covering every binding form (key=$n, key=$n(d), key=(d), literal, absent), forwarding through one and two levels "
                "of nesting under every ordered pair of parameter names from {a, m, z, _u} - the same name on both sides included "
                "(m:in q=$q, q=$q(d), q=(d)) - with and without a default at either level, nested invocations with two arguments "
                "that exchange or shadow each other's names, pipeline bodies, step-local vs caller "
                "values, with every argument set of up to N arguments from a pool of six; replayed into the real library: "
                "instantiation succeeds/fails as the reference says, exact operands and counts in both directions, bit-identity "
                "with the stand-alone plan and with the literal expansion text. Resource graphs: every graph over three names, "
                "chains and cycles up to 60 levels, binary fan-out up to 8 levels. Non-trivial = distinct invocation texts that "
                "are refused or change the operands.")
    res.samples = [b for b in behaviours[:: max(1, len(behaviours) // 3)]][:3]
    res.exhaustive = True
    res.assumptions = ["probe operators are defined by the harness",
                       "the arguments of a nested invocation are resolved in the caller's frame when the invocation is bound: "
                       "key=$name with name absent is an error even if the invoked macro has a default of its own for key",
                       "the recursion guard bounds the depth of the resolution, not its work (fan-out): only depth <= 8 is replayed",
                       "which Error variant is returned is not compared"]
    for m in pipelib.ordered(mism, signature):
        b = m["behaviour"]
        res.add_violation({"suite": "macro", "behaviour": b, "fails": m["fails"], "def": b["calls"][0]["def"],
                           "what": m["fails"][0]["what"], "signature": signature(m)})
    return res.finish()


def replay(path):
    vlib.build_harness()
    return scriptlib.replay_one(path, PROP)
