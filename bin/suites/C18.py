"""C18 — names resolve predictably; handles stay valid and operators never change."""
import json, os, shutil
import vlib

PROP = "C18"


def replay_hist(kind, tag, recs):
    inp = os.path.join(vlib.WORK, "beh", "%s-%s.ndjson" % (tag, kind))
    outp = os.path.join(vlib.WORK, "beh", "%s-%s.out.ndjson" % (tag, kind))
    scratch = os.path.join(vlib.WORK, "ctxscratch", kind)
    shutil.rmtree(scratch, ignore_errors=True)
    os.makedirs(scratch, exist_ok=True)
    vlib.write_ndjson(inp, recs)
    env = {"XDG_DATA_HOME": os.path.join(scratch, "xdg"), "HOME": scratch}
    rc, out = vlib.gvh(["replay", kind, inp, outp, scratch], bin="gvh_ctx", env=env, timeout=3000)
    rows = vlib.read_ndjson(outp)
    return [r for r in rows if r.get("summary")][0], [r for r in rows if not r.get("summary")]


def record_threads(seed, segments, tag):
    out = os.path.join(vlib.WORK, "beh", tag + ".ndjson")
    scratch = os.path.join(vlib.WORK, "ctxscratch", "threads")
    shutil.rmtree(scratch, ignore_errors=True)
    os.makedirs(scratch, exist_ok=True)
    vlib.gvh(["threads", str(seed), str(segments), out, scratch], bin="gvh_ctx",
             env={"XDG_DATA_HOME": os.path.join(scratch, "xdg"), "HOME": scratch}, timeout=1800)
    return out


def corrupted_is_rejected(trace):
    """Self-test of the binding: alter one revisited result and one cache outcome."""
    evs = vlib.read_ndjson(trace)
    ok = True
    # (1) a second application of some (handle, dir) returns something else
    seen = {}
    for i, e in enumerate(evs):
        if e["ev"] == "reset":
            seen = {}
        if e["ev"] == "ret":
            k = (e["h"], e["dir"])
            if k in seen:
                bad = [dict(x) for x in evs]
                bad[i]["out"] = 999999
                pth = trace + ".corrupt1"
                vlib.write_ndjson(pth, bad)
                ok &= not vlib.tlc_trace("Trace_C18", pth, tag="Trace_C18-c1")["accepted"]
                break
            seen[k] = e["out"]
    # (2) a hit is reported as a load
    for i, e in enumerate(evs):
        if e["ev"] == "grid_get" and e["outcome"] == "hit":
            bad = [dict(x) for x in evs]
            bad[i]["outcome"] = "load"
            pth = trace + ".corrupt2"
            vlib.write_ndjson(pth, bad)
            ok &= not vlib.tlc_trace("Trace_C18", pth, tag="Trace_C18-c2")["accepted"]
            break
    return ok


def run(tier, seed):
    res = vlib.Result(PROP, tier, seed, "model_checking")
    vlib.build_harness("gvh_ctx")
    q = tier == "quick"
    nontrivial = 0
    for kind, cfg in (("minimal", "MC_C18_min"), ("plain", "MC_C18_plain")):
        r = vlib.tlc_must_pass(vlib.tlc("MC_C18", cfg if q else cfg + "_t", workers=8, timeout=3000))
        need = ["RegisterOp", "RegisterResource", "OpOk", "OpErr"] + (["OpGrid", "ClearGrids"] if kind == "plain" else [])
        vlib.require_coverage(r, need)
        res.add_tlc(r)
        recs = r["records"].get("HIST", [])
        # a history is non-trivial if something was instantiated and something changed after that
        for x in recs:
            acts = [e["a"] for e in x["hist"]]
            firstop = next((i for i, a in enumerate(acts) if a in ("op", "opgrid") and x["hist"][i].get("h", 0)), None)
            if firstop is not None and any(a in ("regop", "regres", "clear", "opgrid") for a in acts[firstop + 1:]):
                nontrivial += 1
        summary, fails = replay_hist(kind, PROP, recs)
        # Minimal-generated histories are replayed into Plain as well (and vice versa where possible)
        if kind == "minimal":
            s2, f2 = replay_hist("plain", PROP + "-min", recs)
            summary["histories"] += s2["histories"]
            summary["evaluations"] += s2["evaluations"]
            fails += f2
        res.behaviours_replayed += summary["histories"] - len(fails)
        res.evaluations += summary["evaluations"]
        if not res.samples:
            res.samples = [recs[len(recs) // 2], recs[-1]]
        for f in fails:
            res.add_violation({"suite": "context", "what": f["what"], "kind": f["kind"], "detail": f["detail"], "hist": f["hist"],
                               "signature": "%s|%s|%s" % (f["kind"], f["what"], json.dumps(f["hist"])[:300])})
    # ---- Plain: file based macros (resource files, registers, search paths, run-time precedence)
    r = vlib.tlc_must_pass(vlib.tlc("PlainLookup", "PlainLookup", workers=4, timeout=900))
    vlib.require_coverage(r, ["Resolve"])
    res.add_tlc(r)
    recs = r["records"].get("LOOKUP", [])
    inp = os.path.join(vlib.WORK, "beh", "C18-lookup.ndjson")
    outp = os.path.join(vlib.WORK, "beh", "C18-lookup.out.ndjson")
    scratch = os.path.join(vlib.WORK, "ctxscratch", "lookup")
    shutil.rmtree(scratch, ignore_errors=True)
    os.makedirs(scratch, exist_ok=True)
    vlib.write_ndjson(inp, recs)
    rc, out = vlib.gvh(["lookup", inp, outp, scratch], bin="gvh_ctx",
                       env={"XDG_DATA_HOME": os.path.join(scratch, "xdg"), "HOME": scratch}, timeout=3000)
    rows = vlib.read_ndjson(outp)
    sm = [x for x in rows if x.get("summary")][0]
    lf = [x for x in rows if not x.get("summary")]
    res.behaviours_replayed += sm["histories"] - len(lf)
    res.evaluations += sm["evaluations"]
    nontrivial += sum(1 for x in recs if x["expected"] != 0 and (x["rt"] + sum(1 for f in x["files"] if f) + sum(1 for g in x["registers"] if g)) > 1)
    res.samples.append(recs[len(recs) // 3])
    for f in lf:
        res.add_violation({"suite": "plain-lookup", "what": f["what"], "detail": {k: f[k] for k in f if k != "config"}, "config": f["config"],
                           "signature": "lookup|%s|%s" % (f["what"], json.dumps(f["config"])[:300])})
    # ---- concurrent histories: traces recorded from real threads, validated by Trace_C18.tla
    segments = 6 if q else 60
    tr = record_threads(seed, segments, "C18-trace")
    info = vlib.tlc_trace("Trace_C18", tr)
    res.states += info["states"]
    res.transitions += info["generated"]
    res.trace_events += info["matched"] or 0
    if info["accepted"]:
        res.trace_segments_accepted += segments
    else:
        prefix = vlib.read_ndjson(tr)[: (info["matched"] or 0) + 1]
        res.add_violation({"suite": "context-threads", "what": "trace rejected by Trace_C18", "first_unmatched_event": info["next"],
                           "matched": info["matched"], "total": info["total"], "trace_prefix_tail": prefix[-30:],
                           "signature": "trace|" + json.dumps(info["next"], sort_keys=True)})
    # ---- the repository's own test suite, run with the hooks on: its cache events are a behaviour of the same cache
    import rtlib
    rtlib.check_repo_cache(res)
    # the binding binds: a corrupted trace must be rejected
    if not corrupted_is_rejected(tr):
        raise vlib.ToolError("trace validation is vacuous: a corrupted trace was accepted")
    res.distinct_nontrivial = nontrivial
    res.exhaustive = True
    res.rule = ("TLC explores every reachable state of the registry / grid-cache machine (2 contexts; register_op of a name colliding "
                "with a built-in and one that does not, two versions; register_resource of a macro whose body is a name resolved at "
                "instantiation time, a literal, or itself; op of single names, pipelines, unknown names; gridshift instantiation "
                "through the shared cache; clear_grids) up to the history bound, with one history per reachable state (VIEW hides "
                "the history). Each history is replayed into real Minimal and Plain contexts; after EVERY step every operator "
                "instantiated so far is re-observed (output bits on a probe tuple, count, steps(), params().given) and must equal "
                "its first observation; resolution must give the behaviour the model predicts; handles are unique and refused by "
                "the other context; cache hits/loads and object identities (from the grid_get hook) must match the model. "
                "Non-trivial = histories in which something is registered, loaded or cleared after an operator was instantiated.")
    res.assumptions = ["user operators are registered under names without a colon (colon names are macros)",
                       "grid object identity is compared only among objects the model says are still alive"]
    return res.finish()


def replay(path):
    vlib.build_harness("gvh_ctx")
    v = json.load(open(path))
    if v.get("suite") == "plain-lookup":
        print("lookup configuration: re-run bin/check C18 (configuration in the replay file)")
        return run("quick", 1)
    s, f = replay_hist(v["kind"], PROP + "-replay", [{"hist": v["hist"]}])
    if f:
        print("VIOLATION property=%s replay=%s" % (PROP, path))
        return 1
    print("replay passes on the current tree")
    return 0
