"""C18 — names resolve predictably; handles stay valid and operators never change."""
import json, os, shutil
import vlib

PROP = "C18"


def replay_hist(kind, tag, recs):
    inp = os.path.join(vlib.WORK, "beh", "%s-%s.ndjson" % (tag, kind))
    outp = os.path.join(vlib.WORK, "beh", "%s-%s.out.ndjson" % (tag, kind))
    scratch = os.path.join(vlib.WORK, "ctxscratch", kind)
    shutil.rmtree(scratch, ignore_errors=True)
    os.makedirs(scratch, exist_ok=True)
    vlib.write_ndjson(inp, recs)
    env = {"XDG_DATA_HOME": os.path.join(scratch, "xdg"), "HOME": scratch}
    rc, out = vlib.gvh(["replay", kind, inp, outp, scratch], bin="gvh_ctx", env=env, timeout=3000)
    rows = vlib.read_ndjson(outp)
    return [r for r in rows if r.get("summary")][0], [r for r in rows if not r.get("summary")]


LOOKUP_VARIANTS = ["plain", "trailblank", "trailtab", "indent", "cmtblock", "cmtinline", "quoted", "console"]


def replay_lookup(tag, recs):
    inp = os.path.join(vlib.WORK, "beh", tag + "-lookup.ndjson")
    outp = os.path.join(vlib.WORK, "beh", tag + "-lookup.out.ndjson")
    scratch = os.path.join(vlib.WORK, "ctxscratch", "lookup")
    shutil.rmtree(scratch, ignore_errors=True)
    os.makedirs(scratch, exist_ok=True)
    vlib.write_ndjson(inp, recs)
    rc, out = vlib.gvh(["lookup", inp, outp, scratch], bin="gvh_ctx",
                       env={"XDG_DATA_HOME": os.path.join(scratch, "xdg"), "HOME": scratch}, timeout=3000)
    rows = vlib.read_ndjson(outp)
    return [x for x in rows if x.get("summary")][0], [x for x in rows if not x.get("summary")]


def record_threads(seed, segments, tag):
    out = os.path.join(vlib.WORK, "beh", tag + ".ndjson")
    scratch = os.path.join(vlib.WORK, "ctxscratch", "threads")
    shutil.rmtree(scratch, ignore_errors=True)
    os.makedirs(scratch, exist_ok=True)
    vlib.gvh(["threads", str(seed), str(segments), out, scratch], bin="gvh_ctx",
             env={"XDG_DATA_HOME": os.path.join(scratch, "xdg"), "HOME": scratch}, timeout=1800)
    return out


def corrupted_is_rejected(trace):
    """Self-test of the binding: alter one revisited result and one cache outcome."""
    evs = vlib.read_ndjson(trace)
    ok = True
    # (1) a second application of some (handle, dir) returns something else
    seen = {}
    for i, e in enumerate(evs):
        if e["ev"] == "reset":
            seen = {}
        if e["ev"] == "ret":
            k = (e["h"], e["dir"])
            if k in seen:
                bad = [dict(x) for x in evs]
                bad[i]["out"] = 999999
                pth = trace + ".corrupt1"
                vlib.write_ndjson(pth, bad)
                ok &= not vlib.tlc_trace("Trace_C18", pth, tag="Trace_C18-c1")["accepted"]
                break
            seen[k] = e["out"]
    # (2) a hit is reported as a load
    for i, e in enumerate(evs):
        if e["ev"] == "grid_get" and e["outcome"] == "hit":
            bad = [dict(x) for x in evs]
            bad[i]["outcome"] = "load"
            pth = trace + ".corrupt2"
            vlib.write_ndjson(pth, bad)
            ok &= not vlib.tlc_trace("Trace_C18", pth, tag="Trace_C18-c2")["accepted"]
            break
    return ok


def run(tier, seed):
    res = vlib.Result(PROP, tier, seed, "model_checking")
    vlib.build_harness("gvh_ctx")
    q = tier == "quick"
    nontrivial = 0
    # MC_C18_names: the name classes the base instances lack (user operators named like the built-ins the pipeline
    # operator executes itself, as pipeline steps and as macro bodies; resources under names without a colon)
    for kind, cfg in (("minimal", "MC_C18_min"), ("plain", "MC_C18_plain"), ("minimal", "MC_C18_names")):
        r = vlib.tlc_must_pass(vlib.tlc("MC_C18", cfg if q else cfg + "_t", workers=4, timeout=3000))
        need = ["RegisterOp", "RegisterResource", "OpOk", "OpErr"] + (["OpGrid", "ClearGrids"] if kind == "plain" else [])
        vlib.require_coverage(r, need)
        res.add_tlc(r)
        recs = r["records"].get("HIST", [])
        if cfg == "MC_C18_names":
            # vacuity: the colliding names really occur as pipeline steps after their registration
            def shadowed(x, name, step):
                reg = [i for i, e in enumerate(x["hist"]) if e["a"] == "regop" and e["n"] == name]
                return any(e["a"] == "op" and e["ok"] and " | " in e["d"] and step in e["d"] and any(j < i and x["hist"][j]["c"] == e["c"] for j in reg)
                           for i, e in enumerate(x["hist"]))
            for name, step in (("push", "push v_1"), ("stack", "stack push=1")):
                if not any(shadowed(x, name, step) for x in recs):
                    raise vlib.ToolError("vacuous: no history uses a user operator named %s as a pipeline step" % name)
            if not any(e["a"] == "regres" and ":" not in e["n"] for x in recs for e in x["hist"]):
                raise vlib.ToolError("vacuous: no resource registered under a name without a colon")
        # a history is non-trivial if something was instantiated and something changed after that
        for x in recs:
            acts = [e["a"] for e in x["hist"]]
            firstop = next((i for i, a in enumerate(acts) if a in ("op", "opgrid") and x["hist"][i].get("h", 0)), None)
            if firstop is not None and any(a in ("regop", "regres", "clear", "opgrid") for a in acts[firstop + 1:]):
                nontrivial += 1
        tagx = PROP + ("-names" if cfg == "MC_C18_names" else "")
        summary, fails = replay_hist(kind, tagx, recs)
        # Minimal-generated histories are replayed into Plain as well (and vice versa where possible)
        if kind == "minimal":
            s2, f2 = replay_hist("plain", tagx + "-min", recs)
            summary["histories"] += s2["histories"]
            summary["evaluations"] += s2["evaluations"]
            fails += f2
        res.behaviours_replayed += summary["histories"] - len(fails)
        res.evaluations += summary["evaluations"]
        if not res.samples:
            res.samples = [recs[len(recs) // 2], recs[-1]]
        for f in fails:
            res.add_violation({"suite": "context", "what": f["what"], "kind": f["kind"], "detail": f["detail"], "hist": f["hist"],
                               "signature": "%s|%s|%s" % (f["kind"], f["what"], json.dumps(f["hist"])[:300])})
    # ---- Plain: file based macros (resource files, registers, search paths, run-time precedence)
    r = vlib.tlc_must_pass(vlib.tlc("PlainLookup", "PlainLookup", workers=4, timeout=900))
    vlib.require_coverage(r, ["Resolve"])
    res.add_tlc(r)
    recs = r["records"].get("LOOKUP", [])
    # vacuity: every way of writing an item occurs, in either search path, as the source that must be used
    for v in LOOKUP_VARIANTS:
        for p in (0, 1):
            if not any(x["variants"][p] == v and x["expected"] % 1000 == 100 * (p + 1) + 1 for x in recs):
                raise vlib.ToolError("vacuous: no lookup configuration takes the item from a '%s' register in path %d" % (v, p + 1))
    sm, lf = replay_lookup(PROP, recs)
    res.behaviours_replayed += sm["histories"] - len(lf)
    res.evaluations += sm["evaluations"]
    nontrivial += sum(1 for x in recs if x["expected"] != 0 and (x["rt"] + sum(1 for f in x["files"] if f) + sum(1 for g in x["registers"] if g)) > 1)
    res.samples.append(recs[len(recs) // 3])
    for f in lf:
        res.add_violation({"suite": "plain-lookup", "what": f["what"], "detail": {k: f[k] for k in f if k != "config"}, "config": f["config"],
                           "signature": "lookup|%s|%s|%s" % (f["what"], "/".join(f["config"].get("variants", [])), json.dumps(f["config"])[:300])})
    # ---- concurrent histories: traces recorded from real threads, validated by Trace_C18.tla
    segments = 6 if q else 60
    tr = record_threads(seed, segments, "C18-trace")
    info = vlib.tlc_trace("Trace_C18", tr)
    res.states += info["states"]
    res.transitions += info["generated"]
    res.trace_events += info["matched"] or 0
    if info["accepted"]:
        res.trace_segments_accepted += segments
    else:
        prefix = vlib.read_ndjson(tr)[: (info["matched"] or 0) + 1]
        res.add_violation({"suite": "context-threads", "what": "trace rejected by Trace_C18", "first_unmatched_event": info["next"],
                           "matched": info["matched"], "total": info["total"], "trace_prefix_tail": prefix[-30:],
                           "signature": "trace|" + json.dumps(info["next"], sort_keys=True)})
    # ---- the repository's own test suite, run with the hooks on: its cache events are a behaviour of the same cache
    import rtlib
    rtlib.check_repo_cache(res)
    # the binding binds: a corrupted trace must be rejected
    if not corrupted_is_rejected(tr):
        raise vlib.ToolError("trace validation is vacuous: a corrupted trace was accepted")
    res.distinct_nontrivial = nontrivial
    res.exhaustive = True
    # report one (the smallest) representative of every class of disagreement first: Result.finish() writes at most 10
    def vclass(v):
        if v["suite"] == "plain-lookup":
            return "lookup|" + ("/".join(x for x in v["config"].get("variants", []) if x not in ("none", "plain")) or "plain")
        if v["suite"] == "context":
            return "context|%s|%s" % (v["what"], (v.get("detail") or {}).get("def"))
        return v["suite"]
    best = {}
    for v in res.violations:
        v["class"] = vclass(v)
        n = len(json.dumps(v.get("hist") or v.get("config") or ""))
        if v["suite"] == "plain-lookup":   # prefer registers whose last item is properly terminated
            n += 10000 * sum(1 for g in v["config"]["registers"] if g and not g.rstrip().endswith("```"))
        if v["class"] not in best or n < best[v["class"]][0]:
            best[v["class"]] = (n, v)
    reps = [best[k][1] for k in sorted(best)]
    res.violations = reps + [v for v in res.violations if not any(v is x for x in reps)]
    res.extra["violation_classes"] = {k: sum(1 for v in res.violations if v["class"] == k) for k in sorted(best)}
    res.rule = ("TLC explores every reachable state of the registry / grid-cache machine (2 contexts; register_op of a name colliding "
                "with a built-in and one that does not, two versions; register_resource of a macro whose body is a name resolved at "
                "instantiation time, a literal, or itself; op of single names, pipelines, unknown names; gridshift instantiation "
                "through the shared cache; clear_grids) up to the history bound, with one history per TRANSITION (the VIEW hides "
                "the history). A second instance (MC_C18_names) has the name classes the first lacks: user operators registered under "
                "the names of the built-ins which the pipeline operator executes itself (push, stack), used as pipeline steps, "
                "alone and as the body of a macro step, and resources registered under names without a colon (one colliding with a "
                "built-in, one otherwise unknown), which must never be taken for macros. Each history is replayed into real Minimal and "
                "Plain contexts; after EVERY step every operator "
                "instantiated so far is re-observed (output bits on a probe tuple, count, steps(), params().given) and must equal "
                "its first observation; resolution must give the behaviour the model predicts; handles are unique and refused by "
                "the other context; cache hits/loads and object identities (from the grid_get hook) must match the model. "
                "PlainLookup: every configuration of run-time registration, resource file and register in two search paths, the register "
                "in every layout (several items in several orders, item at end of file, LF/CRLF, missing terminator, leading prose, names "
                "that are prefixes of one another) and, one register at a time, in every documented way of writing an item (blanks / a tab "
                "after the identifier, indented fences, other code blocks between the items, ``` inside a block comment or an inline comment of the item, the item quoted in a "
                "longer ````text block before the item itself); the real Plain must use the documented source and its complete body. "
                "Non-trivial = histories in which something is registered, loaded or cleared after an operator was instantiated, and "
                "lookup configurations with more than one source.")
    res.assumptions = ["user operators are registered under names without a colon: the statement's order (user operator before macro) and "
                       "Rumination 000 ('macros are recognized by having a \':\'-sigil anywhere in their name') disagree about "
                       "register_op(\"my:op\"); the code accepts the registration and never resolves it. Not documented unambiguously: not judged",
                       "the built-ins push / stack / pop standing alone (outside a pipeline) are not documented: not generated; pop is not "
                       "generated as a colliding name (its built-in meaning on an empty stack is the subject of a C12 known finding), it "
                       "shares the dispatch of push and stack",
                       "grid object identity is compared only among objects the model says are still alive",
                       "the .resource files, their name (prefix_suffix.resource), the second search path (data_local_dir()/geodesy) and the order "
                       "file-before-register are documented only by the comments and the unit test of src/context/plain.rs (no Rumination "
                       "mentions them); the model takes that order: run-time > path 1 file > path 1 register > path 2 file > path 2 register",
                       "register layouts, not documented: not judged (not generated): an identifier in another case (```Geodesy:name), ~~~ fences, "
                       "blanks between the fence and the identifier, duplicate items (the first wins), a byte order mark at the start of a "
                       ".resource file (NotFound) or of a register (harmless), an item quoted in a ````text block with no real item after it, "
                       "names with more than one colon, a:b_c versus a_b:c (same .resource file), path separators in names",
                       ]
    return res.finish()


def replay(path):
    vlib.build_harness("gvh_ctx")
    v = json.load(open(path))
    if v.get("suite") == "plain-lookup":
        sm, lf = replay_lookup(PROP + "-replay", [v["config"]])
        if lf:
            print("VIOLATION property=%s replay=%s" % (PROP, path))
            return 1
        print("replay passes on the current tree")
        return 0
    s, f = replay_hist(v["kind"], PROP + "-replay", [{"hist": v["hist"]}])
    if f:
        print("VIOLATION property=%s replay=%s" % (PROP, path))
        return 1
    print("replay passes on the current tree")
    return 0
