"""C01 — inverse direction undoes forward direction (claimed partially: see DESIGN §5.1)."""
import json, os
import vlib, scriptlib, pipelib

PROP = "C01"

# exact built-ins standing in for the probes: permutations, sign changes and integer translations
EXACT = {
    "t_add e=1 c=1": "addone",
    "t_add e=1 c=5": "adapt from=nwuf",
    "t_dbl e=1": "axisswap order=2,1,-3",
    "t_add e=2 c=3": "helmert x=3 y=-4 z=5",
}
INTS = [[2048, 12288, 13312, 14336], [-21504, 22528, 0, 24576], [7168, -3072, 5120, 2068480]]


def rt_calls(defn, data, resources_keyed=None):
    return [
        {"do": "op", "def": defn, "as": "h", "ok": True},
        # inverse after forward restores the operands exactly
        {"do": "apply", "h": "h", "dir": "F", "data": data, "expect": {"count": len(data)}},
        {"do": "apply", "h": "h", "dir": "I", "expect": {"count": len(data), "data": data}},
        # and forward after inverse
        {"do": "apply", "h": "h", "dir": "I", "data": data, "expect": {"count": len(data)}},
        {"do": "apply", "h": "h", "dir": "F", "expect": {"count": len(data), "data": data}},
    ]


def run(tier, seed):
    res = vlib.Result(PROP, tier, seed, "model_checking")
    vlib.build_harness()
    q = tier == "quick"
    r = vlib.tlc_must_pass(vlib.tlc("MC_C01", "MC_C01_q" if q else "MC_C01_t", workers=8 if q else 14, timeout=3400, xmx="12g"))
    vlib.require_coverage(r, ["DispatchNext", "StepLeaf", "StepEnter", "Return"])
    res.add_tlc(r)
    beh = []
    nontrivial = set()
    for x in r["records"].get("REPLAY", []):
        i = len(beh)
        # exact expectations in each direction, the plan (dispatch trace), the expansion ...
        b = pipelib.to_behaviours(i, x, relational=False)[0]
        # ... and the round trips, on the probe basis
        b["calls"] += rt_calls(x["def"], x["data"])[1:]
        beh.append(b)
        # the same with exact built-ins substituted for the probes
        saved = dict(pipelib.SUBST)
        pipelib.SUBST.clear()
        pipelib.SUBST.update(EXACT)
        try:
            res2 = {k: pipelib.subst_def(v) for k, v in x["resources"].items()}
            beh.append({"id": "%de" % i, "ctx": "minimal", "resources": res2,
                        "calls": rt_calls(pipelib.subst_def(x["def"]), INTS), "kind": "exact-builtins"})
        finally:
            pipelib.SUBST.clear()
            pipelib.SUBST.update(saved)
        if any(a["data"] != x["data"] for a in x["apps"]):
            nontrivial.add(x["def"])
    summary, mism = scriptlib.replay_scripts(PROP, beh)
    res.behaviours_replayed = summary["behaviours"] - len(mism)
    res.evaluations = summary["evaluations"]
    res.distinct_nontrivial = len(nontrivial)
    for m in mism:
        b = m["behaviour"]
        res.add_violation({"suite": "roundtrip-algebra", "behaviour": b, "fails": m["fails"], "def": b["calls"][0]["def"],
                           "what": m["fails"][0]["what"], "signature": "%s|%s|%s" % (b.get("kind"), m["fails"][0]["what"], b["calls"][0]["def"])})
    res.samples = [beh[len(beh) // 2], beh[len(beh) // 2 + 1]]
    # ---- the numeric base case: every invertible catalogue operator, as a validated assumption
    c01lib = None
    if os.path.exists(os.path.join(vlib.VERIF, "bin", "c01lib.READY")):   # wired in once validated
        import c01lib
    if c01lib is not None:
        c01lib.roundtrip_cases(tier, seed, res)
        res.assumptions.append("per-operator numeric closure (catalogue lattice) is assumption validation with the statement's tolerances, "
                               "counted in assumption_evaluations, not model checking")
    else:
        res.assumptions.append("per-operator numeric closure over the catalogue lattice: not wired in yet")
    res.rule = ("TLC enumerates every definition of up to N steps over invertible probe steps and macros (single step, pipeline, "
                "pipeline with an inverted step, nested inverted macro) x inv per step x 3 layouts and checks on the free algebra of "
                "the plan that inverse-after-forward and forward-after-inverse restore the operands exactly; each is replayed: exact "
                "expected operands per direction, the dispatch sequence logged by the hook equals the specification's plan, F-then-I "
                "and I-then-F restore the input bit for bit, on the probe basis and with exact built-ins (addone, adapt, axisswap, "
                "integer helmert) substituted. Non-trivial = distinct definition texts that change the operands.")
    res.exhaustive = True
    res.assumptions += ["probe operators are defined by the harness",
                        "numerical accuracy between lattice points and for random ellipsoids is not decided (numerical analysis)"]
    return res.finish()


def replay(path):
    vlib.build_harness()
    return scriptlib.replay_one(path, PROP)
