"""C20 — the kp command line program prints what the library computes.

spec/Kp.tla (reader, batcher with batch size B as a constant, transformer, formatter, exit status) is
model-checked by TLC with B = 3 (and 4 / 5); every explored *shape* (input described by items that do
not mention B + command line) is emitted with what the specification predicts for it.  The binding
instantiates every shape with the real batch size (25000), runs the real `kp` binary built from
/repo's working tree, and compares its stdout line by line with what the library computes in-process
(harness/src/bin/gvh_kp.rs) for the tuple the specification assigns to that line, plus the exit
status class and "stderr non-empty" as predicted.
"""
import json, os, re, shutil, subprocess, hashlib, time
from concurrent.futures import ProcessPoolExecutor
from fractions import Fraction
import vlib

PROP = "C20"
BREAL = 25000                     # kp's internal batch size
NOOPT = -1
OK_OPS = ["addone", "helmert x=1 y=2 z=3", "geo:in | utm zone=32", "noop",      # shape.opx (1-based)
          # operations with a domain limit (family F): the library returns NaN for, and does not count, a tuple
          # too far from the central meridian (both directions) / outside the projection disc (inverse)
          "geo:in | tmerc lon_0=9", "laea lat_0=52 lon_0=10"]
BAD_OPS = ["no_such_operator", "utm", "addone | helmert x=foo"]
# Units of the last printed place a token may be away from the library's in-process value.  kp and the
# harness are two builds of the library (different optimisation levels): operations made of additions of
# exactly representable numbers must agree to the digit (0.5: correctly rounded, ties either way); for
# the projection a difference in the last bits of the two builds must not raise an alarm.
SLACK = [0.5, 0.5, 2.5, 0.5, 2.5, 2.5]
ZVAL, TVAL = "7.5", "2020.25"      # the -z / -t values
DECO = {"blank": "", "ws": "  \t ", "comment": "# a comment 1 2 3", "icomment": "   # indented 4 5 6"}
TAIL = " # trailing 7 8 9"
ACTIONS = ["Instantiate", "BadOperation", "OpenFile", "OpenFails", "SkipLine", "ReadCoord", "EndOfFile",
           "EndOfInput", "Transform", "RefuseRoundtrip", "Format"]
KP_TIMEOUT = 300
WORKERS = 4


# --------------------------------------------------------------------------
# deterministic line generator (per process)
# --------------------------------------------------------------------------

class Gen:
    """Text and value of column e of coordinate line number n (n = 1, 2, ... over the whole input).

    decimal notation: c1 = 40 + n/4096, c2 = 5 + (7n mod 1000)/128, c3 = +-(100 + (n mod 500)/4),
    c4 = 2000 + (n mod 40)/8 (text = Python repr; its value = float(text)).
    sexagesimal notation: c1, c2 taken from the specification's table (text and exact value), c3, c4 as above."""

    def __init__(self, sexa):
        self.sexa = [(x["txt"], repr(float(Fraction(x["n128"], 128)))) for x in sexa]
        self.n = 0
        self.txt = {"dec": [[None], [None], [None], [None]], "sexa": [[None], [None], [None], [None]]}
        self.val = {"dec": [[None], [None], [None], [None]], "sexa": [[None], [None], [None], [None]]}
        self.joined = {}
        # lines outside the domain of the family F operations, by the direction applied first:
        # "fwd": latitude just off the equator, 90 degrees from the central meridian (tmerc easting unbounded);
        # "inv": an easting of 30000 km (beyond tmerc's limit and outside laea's disc)
        self.ftxt = {"fwd": [[None], [None], [None], [None]], "inv": [[None], [None], [None], [None]]}
        self.fval = {"fwd": [[None], [None], [None], [None]], "inv": [[None], [None], [None], [None]]}

    def ensure(self, nmax):
        if nmax <= self.n:
            return
        T = len(self.sexa)
        for n in range(self.n + 1, nmax + 1):
            c = [repr(40 + n / 4096), repr(5 + ((7 * n) % 1000) / 128),
                 repr((100 + (n % 500) / 4) * (-1 if n % 3 == 0 else 1)), repr(2000 + (n % 40) / 8)]
            for e in range(4):
                self.txt["dec"][e].append(c[e])
                self.val["dec"][e].append(repr(float(c[e])))
            s1, s2 = self.sexa[n % T], self.sexa[(7 * n + 3) % T]
            st = [s1[0], s2[0], c[2], c[3]]
            sv = [s1[1], s2[1], repr(float(c[2])), repr(float(c[3]))]
            for e in range(4):
                self.txt["sexa"][e].append(st[e])
                self.val["sexa"][e].append(sv[e])
            ff = {"fwd": [repr((1 + n % 64) / 1024), "99", c[2], c[3]],
                  "inv": [repr(30000000 + n % 1000), repr(1000 + (n % 500) / 4), c[2], c[3]]}
            for k, toks in ff.items():
                for e in range(4):
                    self.ftxt[k][e].append(toks[e])
                    self.fval[k][e].append(repr(float(toks[e])))
        self.n = nmax
        self.joined = {}

    def fail_text(self, first, c, n):
        return " ".join(self.ftxt[first][e][n] for e in range(c))

    def text(self, form, c):
        """list indexed by n of the line text with c columns"""
        k = (form, c)
        if k not in self.joined:
            cols = self.txt[form][:c]
            self.joined[k] = [None] + [" ".join(t) for t in zip(*[x[1:] for x in cols])]
        return self.joined[k]


_G = {}


def _init_worker(kp, gvh, sexa, root):
    _G["kp"], _G["gvh"], _G["gen"], _G["root"] = kp, gvh, Gen(sexa), root
    _G["gen"].ensure(3 * BREAL + 64)


# --------------------------------------------------------------------------
# instantiation of a shape with B = 25000
# --------------------------------------------------------------------------

def mult(it):
    return BREAL - 2 if it["rep"] == "fill" else 1


def fail_offsets(it, m):
    """0-based offsets of the lines of a coordinate item (m lines) that lie outside the operation's domain
    (Kp.tla: FailAt)"""
    f = it.get("fail", "none")
    return {"none": [], "all": range(m), "first": [0], "last": [m - 1], "mid": [(m + 1) // 2 - 1],
            "some": range(0, m, 4)}[f]


def cols_at(it, j0):
    return it["cols"] if it["cols"] != 0 else (j0 % 4) + 1


def first_dir(shape):
    return "fwd" if shape["mode"] in ("fwd", "rt_fwd_inv") else "inv"


def item_text(gen, it, n0, m, first="fwd"):
    """the m lines of coordinate item `it`, the first being coordinate line n0"""
    if it["cols"] != 0:
        lines = gen.text(it["form"], it["cols"])[n0:n0 + m]
    else:
        lines = [None] * m
        for k in range(4):              # copy j (1-based) has ((j-1) % 4) + 1 columns
            lines[k::4] = gen.text(it["form"], k + 1)[n0 + k:n0 + m:4]
    fo = fail_offsets(it, m)
    if len(fo):
        lines = list(lines)
        for j in fo:
            lines[j] = gen.fail_text(first, cols_at(it, j), n0 + j)
    if it["tail"]:
        lines = [s + TAIL for s in lines]
    return lines


def _tuple_lines(gen, form, c, rule, ns):
    """expected input tuples (as text for gvh_kp) for the coordinate lines ns (a range), all with c columns"""
    cols, mask = [], ""
    for e in range(4):
        r = rule[e]
        if r == "col":
            cols.append(gen.val[form][e][ns.start:ns.stop:ns.step])
        elif r == "zero":
            cols.append(["0"] * len(ns))
        elif r == "nan":
            cols.append(["NaN"] * len(ns))
        elif r in ("z", "z_or_col"):
            cols.append([ZVAL] * len(ns))
        elif r in ("t", "t_or_col"):
            cols.append([TVAL] * len(ns))
        else:
            raise vlib.ToolError("unknown element rule " + r)
        mask += "0" if r.endswith("_or_col") else "1"
    return ["%s %s %s %s %s" % (a, b, x, y, mask) for a, b, x, y in zip(*cols)]


def item_tuples(gen, it, n0, m, rules, first="fwd"):
    if it["cols"] != 0:
        lines = _tuple_lines(gen, it["form"], it["cols"], rules[it["cols"] - 1], range(n0, n0 + m))
    else:
        lines = [None] * m
        for k in range(4):
            lines[k::4] = _tuple_lines(gen, it["form"], k + 1, rules[k], range(n0 + k, n0 + m, 4))
    for j in fail_offsets(it, m):
        # same rules, the columns being those of the out-of-domain line
        old = lines[j].split()
        rule = rules[cols_at(it, j) - 1]
        lines[j] = " ".join([gen.fval[first][e][n0 + j] if rule[e] == "col" else old[e] for e in range(4)] + [old[4]])
    return lines


def command_line(shape, fileargs):
    o = shape["opts"]
    a = []
    if o["inv"]:
        a.append("--inv")
    if o["rt"]:
        a.append("--roundtrip")
    if o["z"]:
        a += ["-z", ZVAL]
    if o["t"]:
        a += ["-t", TVAL]
    if o["d"] != NOOPT:
        a += ["-d", str(o["d"])]
    if o["D"] != NOOPT:
        a += ["-D", str(o["D"])]
    a.append(op_def(shape))
    return a + fileargs


def op_def(shape):
    return (OK_OPS if shape["op"] == "ok" else BAD_OPS)[shape["opx"] - 1]


def shape_key(shape):
    core = {k: shape[k] for k in ("fam", "files", "op", "opx", "opts")}
    return hashlib.sha1(json.dumps(core, sort_keys=True).encode()).hexdigest()[:12]


def run_shape(shape, keep=False, corrupt=False):
    """Instantiate one shape with the real batch size, run kp and the library, compare.
    Returns {"key", "fails": [...], "cmd", "observed": {...}, "expected": {...}, "evaluations", "lines"}"""
    gen, kp, gvh = _G["gen"], _G["kp"], _G["gvh"]
    key = shape_key(shape)
    d = os.path.join(_G["root"], "%s-%d" % (key, os.getpid()))
    shutil.rmtree(d, ignore_errors=True)
    os.makedirs(d)
    try:
        return _run_shape(shape, key, d, gen, kp, gvh, corrupt)
    finally:
        if not keep:
            shutil.rmtree(d, ignore_errors=True)


def _run_shape(shape, key, d, gen, kp, gvh, corrupt):
    # ---- the input text, file by file; coordinate lines are numbered 1.. in input order
    n = 0
    where = {}
    fileargs, stdin_path = [], None
    ncoord_items = 0
    nfail = 0
    for f, fl in enumerate(shape["files"], 1):
        if fl["src"] == "missing":
            fileargs.append(os.path.join(d, "does-not-exist-%d.txt" % f))
            continue
        chunks = []
        for i, it in enumerate(fl["items"], 1):
            if it["t"] == "c":
                m = mult(it)
                gen.ensure(n + m)
                where[(f, i)] = (n + 1, m, it)
                chunks += item_text(gen, it, n + 1, m, first_dir(shape))
                nfail += len(fail_offsets(it, m))
                n += m
                ncoord_items += 1
            else:
                chunks.append(DECO[it["t"]])
        text = "\n".join(chunks) + ("\n" if (fl["eol"] and chunks) else "")
        path = os.path.join(d, "in%d.txt" % f)
        with open(path, "w") as fh:
            fh.write(text)
        if fl["src"] == "file":
            fileargs.append(path)
        elif fl["src"] == "dash":
            fileargs.append("-")
            stdin_path = path
        else:
            stdin_path = path       # implicit: no file argument
    # ---- the tuples the specification assigns to the output lines, in the order it predicts
    tl = []
    for f, i in shape["out"]:
        n0, m, it = where[(f, i)]
        tl += item_tuples(gen, it, n0, m, shape["rules"], first_dir(shape))
    n_expected = shape["ones"] + shape["fills"] * (BREAL - 2)
    if shape["status"] == "ok" and (len(tl) != n_expected or n_expected != n):
        raise vlib.ToolError("instantiation disagrees with the specification's line count: %d %d %d" % (len(tl), n_expected, n))
    if corrupt and tl:
        x = tl[-1].split()
        x[0] = repr(float(x[0]) + 1)
        tl[-1] = " ".join(x)
    tuples_path = os.path.join(d, "tuples.txt")
    with open(tuples_path, "w") as fh:
        fh.write("\n".join(tl) + ("\n" if tl else ""))
    # ---- the real program
    cmd = command_line(shape, fileargs)
    out_path, err_path = os.path.join(d, "stdout.txt"), os.path.join(d, "stderr.txt")
    env = dict(os.environ)
    env["RUST_BACKTRACE"] = "0"
    env.pop("RUST_LOG", None)
    timed_out = False
    with open(out_path, "wb") as so, open(err_path, "wb") as se:
        si = open(stdin_path, "rb") if stdin_path else subprocess.DEVNULL
        try:
            p = subprocess.run([kp] + cmd, cwd=d, stdin=si, stdout=so, stderr=se, env=env, timeout=KP_TIMEOUT)
            rc = p.returncode
        except subprocess.TimeoutExpired:
            timed_out, rc = True, None
        finally:
            if stdin_path:
                si.close()
    stderr_head = re.sub(r"\(\d+\) ", "", open(err_path, "rb").read(600).decode("utf-8", "replace")).replace(d + os.sep, "")
    stderr_nonempty = os.path.getsize(err_path) > 0
    # ---- the library
    # Where the specification leaves the end of a --roundtrip run with failing tuples open, an error end
    # (message, non-zero status) is admitted: what was written before must be the first lines of the prediction.
    refused = bool(shape.get("refusal_open")) and rc not in (0, None) and stderr_nonempty and rc != 101
    o = shape["opts"]
    job = {"id": key, "def": op_def(shape), "mode": shape["mode"],
           "d": None if o["d"] == NOOPT else o["d"], "D": None if o["D"] == NOOPT else o["D"],
           "tuples": tuples_path if shape["status"] == "ok" else None,
           "observed": out_path, "expected_out": os.path.join(d, "expected.txt"),
           "compare": "prefix" if (refused and shape["compare"] == "numbers") else shape["compare"],
           "slack": SLACK[shape["opx"] - 1] if shape["op"] == "ok" else 0.5}
    jp, rp = os.path.join(d, "job.ndjson"), os.path.join(d, "result.ndjson")
    with open(jp, "w") as fh:
        fh.write(json.dumps(job) + "\n")
    g = subprocess.run([gvh, "jobs", jp, rp], cwd=d, stdout=subprocess.PIPE, stderr=subprocess.STDOUT, text=True, timeout=1800)
    if g.returncode != 0:
        raise vlib.ToolError("gvh_kp failed (%d): %s" % (g.returncode, g.stdout[-2000:]))
    lib = json.loads(open(rp).read().splitlines()[0])
    for k in ("tool_error", "oracle_panic", "oracle_error"):
        if lib.get(k):
            raise vlib.ToolError("gvh_kp could not compute the library's result for %s: %s" % (cmd, lib[k]))
    if lib["op_ok"] != (shape["op"] == "ok"):
        raise vlib.ToolError("the binding's operation table is stale: %r accepted=%s" % (op_def(shape), lib["op_ok"]))
    # the family must not be vacuous: the library really fails on exactly the lines the specification marks
    if shape["fam"] == "F" and "successes" in lib and lib["successes"] != n - nfail:
        raise vlib.ToolError("the library counts %d successes, the specification marks %d of %d lines as failing (%s)"
                             % (lib["successes"], nfail, n, op_def(shape)))
    # ---- verdict against the reference prediction
    fails = []
    expected = {"status": shape["refstatus"], "lines": n_expected if shape["refstatus"] == "ok" else None,
                "compare": shape["compare"]}
    observed = {"rc": rc, "timeout": timed_out, "stderr_nonempty": stderr_nonempty, "stderr_head": stderr_head,
                "lines": lib.get("n_observed")}
    if timed_out:
        fails.append({"what": "hang", "msg": "kp did not finish within %ds" % KP_TIMEOUT})
    elif shape["refstatus"] == "error":
        if rc == 0:
            fails.append({"what": "zero-status-on-error", "msg": "kp ended with status 0"})
        if not stderr_nonempty:
            fails.append({"what": "no-error-message", "msg": "nothing on stderr"})
    else:
        if not lib["count_ok"]:
            fails.append({"what": "line-count", "msg": "%d output lines for %d coordinate lines" % (lib["n_observed"], n_expected)})
        if lib.get("n_mismatch", 0):
            fails.append({"what": "line-content", "msg": "%d output lines differ from the library's result" % lib["n_mismatch"],
                          "first": lib["mismatches"]})
        if rc == 101 or (rc != 0 and shape.get("exit_compared", True)):
            fails.append({"what": "abnormal-end", "msg": "valid input ended with status %s%s" % (
                rc, " (panic)" if rc == 101 else "")})
    cmd = [a.replace(d + os.sep, "") for a in cmd]      # reported without the scratch directory
    return {"key": key, "fails": fails, "cmd": cmd, "observed": observed, "expected": expected,
            "evaluations": 1 + lib.get("evaluations", 0), "lines": n, "refused": refused, "nfail": nfail,
            "stdout_ok": shape["refstatus"] == "ok" and lib.get("count_ok") and not lib.get("n_mismatch", 0)}


def _work(args):
    shape, keep, corrupt = args
    try:
        return run_shape(shape, keep, corrupt)
    except vlib.ToolError as e:
        return {"key": shape_key(shape), "tool_error": str(e)}


# --------------------------------------------------------------------------
# the check
# --------------------------------------------------------------------------

PRED = ("status", "refstatus", "mode", "ones", "fills", "out", "rules", "compare", "exit_compared", "refusal_open")


def model(res, tier):
    """TLC runs; returns (shapes, sexa table).  The prediction must not depend on B."""
    cfgs = ["MC_C20_q", "MC_C20_q4"] if tier == "quick" else ["MC_C20_t", "MC_C20_t5"]
    per_cfg = []
    sexa = None
    for cfg in cfgs:
        r = vlib.tlc_must_pass(vlib.tlc("MC_C20", cfg, workers=4, timeout=1500, xmx="6g"))
        vlib.require_coverage(r, ACTIONS)
        res.add_tlc(r)
        recs = r["records"].get("SHAPE", [])
        if not recs:
            raise vlib.ToolError("no shapes exported by " + cfg)
        main = {}
        for x in recs:
            k = shape_key(x)
            if x["refused"]:
                continue
            if k in main:
                raise vlib.ToolError("two complete behaviours for one shape in " + cfg)
            main[k] = x
        for x in recs:
            if x["refused"]:
                main[shape_key(x)]["refusal_open"] = True
        for x in main.values():
            # the binding's reading of the `fail` patterns, checked against the specification at TLC's B
            mine = sum(len(fail_offsets(it, x["B"] - 2 if it["rep"] == "fill" else 1))
                       for f in x["files"] for it in f["items"] if it["t"] == "c")
            if mine != x["nfail"]:
                raise vlib.ToolError("binding and specification disagree on the failing lines of %s" % json.dumps(x)[:300])
        per_cfg.append(main)
        sexa = r["records"]["SEXA"][0]["tab"]
    a, b = per_cfg
    if set(a) != set(b):
        raise vlib.ToolError("the two TLC runs explored different shapes")
    for k in a:
        if any(a[k].get(f) != b[k].get(f) for f in PRED):
            raise vlib.ToolError("the specification's prediction depends on B for shape %s" % json.dumps(a[k])[:400])
    return [a[k] for k in sorted(a)], sexa


def deviated(tier):
    """status per shape with the named deviation switched on (only needed when a finding is registered)"""
    r = vlib.tlc_must_pass(vlib.tlc("MC_C20", "MC_C20_q_dev" if tier == "quick" else "MC_C20_t_dev", workers=4, timeout=1500))
    return {shape_key(x): x["status"] for x in r["records"].get("SHAPE", []) if not x["refused"]}


def nontrivial(shape):
    """something other than 'one file of complete decimal tuples in one batch, printed forward'"""
    items = [it for f in shape["files"] for it in f["items"]]
    return (shape["refstatus"] == "error" or len(shape["files"]) > 1 or shape["mode"] != "fwd"
            or any(it["t"] != "c" or it["tail"] or it["form"] == "sexa" or it["cols"] != 4 or it["rep"] == "fill" for it in items)
            or shape["opts"]["z"] or shape["opts"]["t"] or shape["opts"]["D"] not in (4, NOOPT)
            or any(f["src"] != "file" for f in shape["files"]))


def size_class(shape):
    ncoord = shape["ones"] + shape["fills"] * (BREAL - 2)
    if shape["refstatus"] != "ok":
        return "error-expected"
    if ncoord == 0:
        return "no-coordinate-lines"
    if ncoord % BREAL == 0:
        return "whole-batches"
    return "other"


def execute(shapes, sexa, keep=False, corrupt=False):
    root = os.path.join(vlib.WORK, "c20")
    os.makedirs(root, exist_ok=True)
    kp = vlib.build_kp()
    gvh = vlib.build_harness("gvh_kp")
    # big ones first, so that the pool drains evenly
    order = sorted(range(len(shapes)), key=lambda i: -(shapes[i]["fills"]))
    results = [None] * len(shapes)
    with ProcessPoolExecutor(max_workers=WORKERS, initializer=_init_worker, initargs=(kp, gvh, sexa, root)) as ex:
        for i, r in zip(order, ex.map(_work, [(shapes[i], keep, corrupt) for i in order], chunksize=1)):
            results[i] = r
    for r in results:
        if r.get("tool_error"):
            raise vlib.ToolError(r["tool_error"])
    return results


def probe_outside(kp):
    """More than four columns: outside the property's quantifier (1 to 4 columns), reported, never judged."""
    obs = []
    for text in ("1 2 3 4 5\n", "1 2 3 4 5 6\n"):
        try:
            p = subprocess.run([kp, "-d", "2", "-D", "4", "addone"], input=text, stdout=subprocess.PIPE, stderr=subprocess.PIPE,
                               text=True, timeout=60, env=dict(os.environ, RUST_BACKTRACE="0"))
            obs.append({"input": text.strip(), "rc": p.returncode, "stdout": p.stdout.strip(), "stderr": p.stderr.strip()[:200]})
        except subprocess.TimeoutExpired:
            obs.append({"input": text.strip(), "timeout": True})
    return obs


def run(tier, seed):
    res = vlib.Result(PROP, tier, seed, "model_checking")
    kp = vlib.build_kp()
    vlib.build_harness("gvh_kp")
    shapes, sexa = model(res, tier)
    t0 = time.time()
    results = execute(shapes, sexa)
    vlib.log("[C20] %d shapes instantiated with B=%d and run through kp in %.1fs" % (len(shapes), BREAL, time.time() - t0))
    kf = {k.get("deviation"): k for k in vlib.known_findings(PROP)}
    dev = deviated(tier) if "DEV_EmptyFinalBatch" in kf else {}
    fam, sizes, lines = {}, {}, 0
    res.extra["failing_coordinate_lines"] = sum(r["nfail"] for r in results)
    res.extra["shapes_with_failing_lines"] = sum(1 for r in results if r["nfail"])
    res.extra["roundtrip_runs_refused_by_kp"] = sum(1 for r in results if r["refused"])
    for s, r in zip(shapes, results):
        fam[s["fam"]] = fam.get(s["fam"], 0) + 1
        sizes[size_class(s)] = sizes.get(size_class(s), 0) + 1
        lines += r["lines"]
        res.evaluations += r["evaluations"]
        if not r["fails"]:
            res.behaviours_replayed += 1
            continue
        whats = sorted(f["what"] for f in r["fails"])
        # the registered deviation: everything the reference demands of stdout holds, only the end is abnormal,
        # and the specification with the deviation switched on predicts exactly that
        if whats == ["abnormal-end"] and r["stdout_ok"] and dev.get(r["key"]) == "error" and s["status"] == "ok":
            k = kf["DEV_EmptyFinalBatch"]
            res.add_known(k.get("id", "DEV_EmptyFinalBatch"), k.get("what", "kp ends abnormally when the final batch is empty"))
            continue
        res.add_violation({"suite": "kp", "what": "+".join(whats), "def": " ".join(["kp"] + [json.dumps(a) if " " in a else a for a in r["cmd"]]),
                           "shape": s, "fails": r["fails"], "expected": r["expected"], "observed": r["observed"],
                           "signature": "%s|%s" % ("+".join(whats), size_class(s))})
    res.distinct_nontrivial = len({shape_key(s) for s in shapes if nontrivial(s)})
    res.exhaustive = True
    res.extra["shapes_per_family"] = fam
    res.extra["shapes_per_size_class"] = sizes
    res.extra["input_lines_processed_by_kp"] = lines
    res.extra["real_batch_size"] = BREAL
    res.extra["outside_quantifier_more_than_4_columns"] = probe_outside(kp)
    res.rule = ("TLC runs the kp machine (reader, batcher, transformer, formatter, exit status) on every shape of the families "
                "A (blank/white-space/comment lines in every gap relative to the batch boundaries), B (the same lines split over 2-3 "
                "files and stdin at every position, with and without final newline), C (option sets over --inv, --roundtrip, -z, -t, "
                "-d, -D on eight lines of 1-4 columns in decimal and sexagesimal notation; and on multi-batch inputs), D (mixtures of "
                "column counts, notations, trailing comments), E (refused operations, missing files at every argument position), F (valid "
                "operation with a domain limit, coordinate lines outside it - the library returns NaN and counts fewer successes than "
                "tuples - at the first / middle / last position of a batch and in the final partial batch, one item, two items, every "
                "line, forward, --inv and --roundtrip: still one output line per coordinate line, each the library's result), for the "
                "coordinate counts k*B + r, k in 0..2, r in {0, 1, B-1}, with B = 3 and B = 4 (quick) / 5 (thorough); the emitted "
                "prediction must be the same for both B. Every shape is instantiated with B = 25000 and run through the real kp; "
                "stdout is compared line by line (token by token, -d decimals, -D tokens) with the library's in-process result for "
                "the tuple the specification assigns to the line; exit status 0 / non-zero + message on stderr as predicted. "
                "Non-trivial = distinct shapes that are not 'one file of complete decimal 4-column single lines, forward, -D 4'.")
    res.samples = [{"shape": s, "cmd": r["cmd"], "lines": r["lines"]} for s, r in list(zip(shapes, results))[:: max(1, len(shapes) // 3)]][:3]
    res.assumptions = [
        "the library is the numeric oracle: operations " + ", ".join(OK_OPS) + " (context Plain, as kp); no absolute number is expected anywhere",
        "output without -d (decimals) or without -D (dimension) is documented as a guess: only the number of output lines is compared there",
        "an element whose column is present while -z/-t is given is not compared (statement: default for missing; help text: fixed for all coordinates)",
        "roundtrip residuals are compared by magnitude (the sign convention of a residual is not documented); -0.0 and 0.0 are the same text",
        "a rounding tie may be broken either way (a token within half a unit of the last place of the library's value, with exactly d decimals, is accepted); "
        "for 'geo:in | utm zone=32', the one operation that is not exact in binary64, 2.5 units of the last place are accepted (kp and the harness are two builds of the library)",
        "when the run must end with an error, stdout is not compared (the statement only demands a message and a non-zero status)",
        "columns are separated by single blanks; sexagesimal notations are D:M:S / D:M with N E S W or a leading minus, values exact in binary64",
        "more than 4 columns, -D 0 or -D > 4, -o, -e are outside the statement and not judged (the >4-column observations are recorded in the evidence)",
        "when the operation is valid but the library fails on some tuples, the documentation does not say how the run ends: the exit status is not "
        "compared there (a panic still is an alarm); under --roundtrip an error end (message, non-zero status) is admitted as well, and what was "
        "written before it must be the first lines of the prediction (extra: roundtrip_runs_refused_by_kp)",
        "family F checks against vacuity that the library's success count equals lines minus the lines the specification marks as failing",
    ]
    return res.finish()


def replay(path):
    with open(path) as f:
        v = json.load(f)
    shape = v.get("shape")
    if not shape:
        print("replay file has no shape")
        return 2
    sexa = vlib.tlc_must_pass(vlib.tlc("MC_C20", "MC_C20_q", workers=4, timeout=900))["records"]["SEXA"][0]["tab"]
    r = execute([shape], sexa)[0]
    print("kp " + " ".join(json.dumps(a) if " " in a else a for a in r["cmd"]))
    print("expected:", json.dumps(r["expected"]), "observed:", json.dumps(r["observed"])[:600])
    if r["fails"]:
        print("VIOLATION property=%s replay=%s" % (PROP, path))
        print(json.dumps(r["fails"])[:2000])
        return 1
    print("replay passes on the current tree")
    return 0


def selftest(seed):
    """Corrupt one expected tuple and require the comparison to notice."""
    res = vlib.Result(PROP, "quick", seed, "model_checking")
    shapes, sexa = model(res, "quick")
    cand = [s for s in shapes if s["fam"] == "C" and s["compare"] == "numbers" and s["refstatus"] == "ok"
            and s["opts"]["d"] >= 3 and not s["opts"]["rt"]][:8]
    results = execute(cand, sexa, corrupt=True)
    ok = all(any(f["what"] == "line-content" for f in r["fails"]) for r in results)
    print("selftest:", "corruption detected" if ok else "corruption NOT detected")
    return 0 if ok else 2
