"""C20 — the kp command line program prints what the library computes.

spec/Kp.tla (reader, batcher with batch size B as a constant, transformer, formatter, exit status) is
model-checked by TLC with B = 3 (and 4 / 5); every explored *shape* (input described by items that do
not mention B + command line) is emitted with what the specification predicts for it.  The binding
instantiates every shape with the real batch size (25000), runs the real `kp` binary built from
/repo's working tree, and compares its stdout line by line with what the library computes in-process
(harness/src/bin/gvh_kp.rs) for the tuple the specification assigns to that line, plus the exit
status class and "stderr non-empty" as predicted.
"""
import json, os, re, shutil, subprocess, hashlib, time
from concurrent.futures import ProcessPoolExecutor
from fractions import Fraction
import vlib

PROP = "C20"
BREAL = 25000                     # kp's internal batch size
NOOPT = -1
OK_OPS = ["addone", "helmert x=1 y=2 z=3", "geo:in | utm zone=32", "noop",      # shape.opx (1-based)
          # operations with a domain limit (family F): the library returns NaN for, and does not count, a tuple
          # too far from the central meridian (both directions) / outside the projection disc (inverse)
          "geo:in | tmerc lon_0=9", "laea lat_0=52 lon_0=10",
          # family H: reports (does not count) a tuple with a NaN among its first three elements, in both directions
          "cart"]
CART = 7
BAD_OPS = ["no_such_operator", "utm", "addone | helmert x=foo"]
# Units of the last printed place a token may be away from the library's in-process value.  kp and the
# harness are two builds of the library (different optimisation levels): operations made of additions of
# exactly representable numbers must agree to the digit (0.5: correctly rounded, ties either way); for
# the projection a difference in the last bits of the two builds must not raise an alarm.
SLACK = [0.5, 0.5, 2.5, 0.5, 2.5, 2.5, 2.5]
MAXCOLS = 9                        # Kp.tla: MaxCols
ZVAL, TVAL = "7.5", "2020.25"      # the -z / -t values
DECO = {"blank": "", "ws": "  \t ", "comment": "# a comment 1 2 3", "icomment": "   # indented 4 5 6"}
TAIL = " # trailing 7 8 9"
NL = {"lf": "\n", "crlf": "\r\n", "cr": "\r"}
# item.sep: (before the first column, between two columns, after the last column)
SEP = {"sp": ("", " ", ""), "tab": ("", "\t", ""), "multi": ("  ", " \t  ", " \t")}
ACTIONS = ["Instantiate", "BadOperation", "OpenFile", "OpenFails", "ForeignLineEnds", "SkipLine", "ReadCoord", "EndOfFile",
           "EndOfInput", "Transform", "RefuseRoundtrip", "Format"]
KP_TIMEOUT = 300
WORKERS = 4


# --------------------------------------------------------------------------
# deterministic line generator (per process)
# --------------------------------------------------------------------------

class Gen:
    """Text and value of column e of coordinate line number n (n = 1, 2, ... over the whole input).

    decimal notation: c1 = 40 + n/4096, c2 = 5 + (7n mod 1000)/128, c3 = +-(100 + (n mod 500)/4),
    c4 = 2000 + (n mod 40)/8 (text = Python repr; its value = float(text)).
    sexagesimal notation: c1, c2 taken from the specification's table (text and exact value), c3, c4 as above.
    "rad" / "xyz": the numbers given to `cart` (forward: longitude and latitude in radians, height; inverse:
    geocentric X, Y, Z of points near the surface) - decimal notation, other magnitudes.
    surplus columns c5.. (every number set): (n + e) mod 17 + e/4."""

    SETS = ("dec", "sexa", "rad", "xyz")

    def __init__(self, sexa):
        self.sexa = [(x["txt"], repr(float(Fraction(x["n128"], 128)))) for x in sexa]
        self.n = 0
        self.txt = {k: [[None] for _ in range(MAXCOLS)] for k in self.SETS}
        self.val = {k: [[None] for _ in range(MAXCOLS)] for k in self.SETS}
        self.joined = {}
        # lines outside the domain of the family F operations, by the direction applied first:
        # "fwd": latitude just off the equator, 90 degrees from the central meridian (tmerc easting unbounded);
        # "inv": an easting of 30000 km (beyond tmerc's limit and outside laea's disc)
        self.ftxt = {"fwd": [[None], [None], [None], [None]], "inv": [[None], [None], [None], [None]]}
        self.fval = {"fwd": [[None], [None], [None], [None]], "inv": [[None], [None], [None], [None]]}

    def ensure(self, nmax):
        if nmax <= self.n:
            return
        T = len(self.sexa)
        for n in range(self.n + 1, nmax + 1):
            c = [repr(40 + n / 4096), repr(5 + ((7 * n) % 1000) / 128),
                 repr((100 + (n % 500) / 4) * (-1 if n % 3 == 0 else 1)), repr(2000 + (n % 40) / 8)]
            c += [repr((n + e) % 17 + e / 4) for e in range(4, MAXCOLS)]
            s1, s2 = self.sexa[n % T], self.sexa[(7 * n + 3) % T]
            st = [s1[0], s2[0]] + c[2:]
            sv = [s1[1], s2[1]] + [repr(float(x)) for x in c[2:]]
            rad = [repr(0.125 + (n % 1000) / 8192), repr(0.75 + ((7 * n) % 1000) / 8192)] + c[2:]
            xyz = [repr(3500000 + (n % 4000) / 4), repr(800000 + ((7 * n) % 1000) / 8), repr(5000000 + (n % 500) / 4)] + c[3:]
            for e in range(MAXCOLS):
                self.txt["dec"][e].append(c[e])
                self.val["dec"][e].append(repr(float(c[e])))
                self.txt["sexa"][e].append(st[e])
                self.val["sexa"][e].append(sv[e])
                self.txt["rad"][e].append(rad[e])
                self.val["rad"][e].append(repr(float(rad[e])))
                self.txt["xyz"][e].append(xyz[e])
                self.val["xyz"][e].append(repr(float(xyz[e])))
            ff = {"fwd": [repr((1 + n % 64) / 1024), "99", c[2], c[3]],
                  "inv": [repr(30000000 + n % 1000), repr(1000 + (n % 500) / 4), c[2], c[3]]}
            for k, toks in ff.items():
                for e in range(4):
                    self.ftxt[k][e].append(toks[e])
                    self.fval[k][e].append(repr(float(toks[e])))
        self.n = nmax
        self.joined = {}

    def fail_text(self, kind, c, n, sep="sp"):
        """a line the library fails on: kind "fwd" / "inv" (outside the domain in that direction), "nan" (NaN in every column)"""
        a, b, z = SEP[sep]
        return a + b.join("NaN" if kind == "nan" else self.ftxt[kind][e][n] for e in range(c)) + z

    def fail_val(self, kind, e, n):
        return "NaN" if kind == "nan" else self.fval[kind][e][n]

    def text(self, form, c, sep="sp"):
        """list indexed by n of the line text with c columns"""
        k = (form, c, sep)
        if k not in self.joined:
            cols = self.txt[form][:c]
            a, b, z = SEP[sep]
            self.joined[k] = [None] + [a + b.join(t) + z for t in zip(*[x[1:] for x in cols])]
        return self.joined[k]


_G = {}


def _init_worker(kp, gvh, sexa, root):
    _G["kp"], _G["gvh"], _G["gen"], _G["root"] = kp, gvh, Gen(sexa), root
    _G["gen"].ensure(3 * BREAL + 64)


# --------------------------------------------------------------------------
# instantiation of a shape with B = 25000
# --------------------------------------------------------------------------

def mult(it):
    return BREAL - 2 if it["rep"] == "fill" else 1


def fail_offsets(it, m):
    """0-based offsets of the lines of a coordinate item (m lines) that lie outside the operation's domain
    (Kp.tla: FailAt)"""
    f = it.get("fail", "none")
    return {"none": [], "all": range(m), "first": [0], "last": [m - 1], "mid": [(m + 1) // 2 - 1],
            "some": range(0, m, 4)}[f]


def period(it):
    """Kp.tla ColsAt: cols 0 - copy j (1-based) has ((j-1) % 4) + 1 columns, cols 10 - ((j-1) % 7) + 1 columns"""
    return {0: 4, 10: 7}.get(it["cols"])


def cols_at(it, j0):
    p = period(it)
    return it["cols"] if p is None else (j0 % p) + 1


def first_dir(shape):
    return "fwd" if shape["mode"] in ("fwd", "rt_fwd_inv") else "inv"


def numset(shape, it):
    """which of the generator's number sets the lines of an item are taken from: the item's notation, or, for
    `cart`, numbers that make sense to it in the direction applied first"""
    if shape["op"] == "ok" and shape["opx"] == CART:
        return "rad" if first_dir(shape) == "fwd" else "xyz"
    return it["form"]


def fail_kind(shape, it):
    """the text of a failing line: NaN in every column (fk both), or outside the domain in the direction applied first"""
    return "nan" if it.get("fk", "dom") == "both" else first_dir(shape)


def item_text(gen, it, n0, m, shape):
    """the m lines of coordinate item `it`, the first being coordinate line n0"""
    ns, sep, p = numset(shape, it), it.get("sep", "sp"), period(it)
    if p is None:
        lines = gen.text(ns, it["cols"], sep)[n0:n0 + m]
    else:
        lines = [None] * m
        for k in range(p):
            lines[k::p] = gen.text(ns, k + 1, sep)[n0 + k:n0 + m:p]
    fo = fail_offsets(it, m)
    if len(fo):
        lines = list(lines)
        for j in fo:
            lines[j] = gen.fail_text(fail_kind(shape, it), cols_at(it, j), n0 + j, sep)
    if it["tail"]:
        lines = [s + TAIL for s in lines]
    return lines


def _tuple_lines(gen, form, c, rule, ns):
    """expected input tuples (as text for gvh_kp) for the coordinate lines ns (a range), all with c columns"""
    cols, mask = [], ""
    for e in range(4):
        r = rule[e]
        if r == "col" or (r == "open" and e < c):
            # "open" (surplus columns: the tuple is not specified): any number will do, the element is not compared
            cols.append(gen.val[form][e][ns.start:ns.stop:ns.step])
        elif r == "open":
            cols.append(["0"] * len(ns))
        elif r == "zero":
            cols.append(["0"] * len(ns))
        elif r == "nan":
            cols.append(["NaN"] * len(ns))
        elif r in ("z", "z_or_col"):
            cols.append([ZVAL] * len(ns))
        elif r in ("t", "t_or_col"):
            cols.append([TVAL] * len(ns))
        else:
            raise vlib.ToolError("unknown element rule " + r)
        mask += "0" if (r.endswith("_or_col") or r == "open") else "1"
    return ["%s %s %s %s %s" % (a, b, x, y, mask) for a, b, x, y in zip(*cols)]


def item_tuples(gen, it, n0, m, shape):
    rules, ns, p = shape["rules"], numset(shape, it), period(it)
    if p is None:
        lines = _tuple_lines(gen, ns, it["cols"], rules[it["cols"] - 1], range(n0, n0 + m))
    else:
        lines = [None] * m
        for k in range(p):
            lines[k::p] = _tuple_lines(gen, ns, k + 1, rules[k], range(n0 + k, n0 + m, p))
    kind = fail_kind(shape, it)
    for j in fail_offsets(it, m):
        # same rules, the columns being those of the failing line
        old = lines[j].split()
        rule = rules[cols_at(it, j) - 1]
        lines[j] = " ".join([gen.fail_val(kind, e, n0 + j) if rule[e] == "col" else old[e] for e in range(4)] + [old[4]])
    return lines


def command_line(shape, fileargs):
    o = shape["opts"]
    a = []
    if o["inv"]:
        a.append("--inv")
    if o["rt"]:
        a.append("--roundtrip")
    if o["z"]:
        a += ["-z", ZVAL]
    if o["t"]:
        a += ["-t", TVAL]
    if o["d"] != NOOPT:
        a += ["-d", str(o["d"])]
    if o["D"] != NOOPT:
        a += ["-D", str(o["D"])]
    a.append(op_def(shape))
    return a + fileargs


def op_def(shape):
    return (OK_OPS if shape["op"] == "ok" else BAD_OPS)[shape["opx"] - 1]


def shape_key(shape):
    core = {k: shape[k] for k in ("fam", "files", "op", "opx", "opts")}
    return hashlib.sha1(json.dumps(core, sort_keys=True).encode()).hexdigest()[:12]


def run_shape(shape, keep=False, corrupt=False):
    """Instantiate one shape with the real batch size, run kp and the library, compare.
    Returns {"key", "fails": [...], "cmd", "observed": {...}, "expected": {...}, "evaluations", "lines"}"""
    gen, kp, gvh = _G["gen"], _G["kp"], _G["gvh"]
    key = shape_key(shape)
    d = os.path.join(_G["root"], "%s-%d" % (key, os.getpid()))
    shutil.rmtree(d, ignore_errors=True)
    os.makedirs(d)
    try:
        return _run_shape(shape, key, d, gen, kp, gvh, corrupt)
    finally:
        if not keep:
            shutil.rmtree(d, ignore_errors=True)


def _run_shape(shape, key, d, gen, kp, gvh, corrupt):
    # ---- the input text, file by file; coordinate lines are numbered 1.. in input order
    n = 0
    where = {}
    fileargs, stdin_path = [], None
    ncoord_items = 0
    nfail = nfail2 = 0
    for f, fl in enumerate(shape["files"], 1):
        if fl["src"] == "missing":
            fileargs.append(os.path.join(d, "does-not-exist-%d.txt" % f))
            continue
        chunks = []
        for i, it in enumerate(fl["items"], 1):
            if it["t"] == "c":
                m = mult(it)
                gen.ensure(n + m)
                where[(f, i)] = (n + 1, m, it)
                chunks += item_text(gen, it, n + 1, m, shape)
                nfail += len(fail_offsets(it, m))
                nfail2 += len(fail_offsets(it, m)) if it.get("fk", "dom") == "both" else 0
                n += m
                ncoord_items += 1
            else:
                chunks.append(DECO[it["t"]])
        nl = NL[fl.get("nl", "lf")]
        text = nl.join(chunks) + (nl if (fl["eol"] and chunks) else "")
        path = os.path.join(d, "in%d.txt" % f)
        with open(path, "wb") as fh:
            fh.write(text.encode())
        if fl["src"] == "file":
            fileargs.append(path)
        elif fl["src"] == "dash":
            fileargs.append("-")
            stdin_path = path
        else:
            stdin_path = path       # implicit: no file argument
    # ---- the tuples the specification assigns to the output lines, in the order it predicts
    tl = []
    for f, i in shape["out"]:
        n0, m, it = where[(f, i)]
        tl += item_tuples(gen, it, n0, m, shape)
    n_expected = shape["ones"] + shape["fills"] * (BREAL - 2)
    if shape["status"] == "ok" and (len(tl) != n_expected or n_expected != n):
        raise vlib.ToolError("instantiation disagrees with the specification's line count: %d %d %d" % (len(tl), n_expected, n))
    if corrupt and tl:
        x = tl[-1].split()
        x[0] = repr(float(x[0]) + 1)
        tl[-1] = " ".join(x)
    tuples_path = os.path.join(d, "tuples.txt")
    with open(tuples_path, "w") as fh:
        fh.write("\n".join(tl) + ("\n" if tl else ""))
    # ---- the real program
    cmd = command_line(shape, fileargs)
    out_path, err_path = os.path.join(d, "stdout.txt"), os.path.join(d, "stderr.txt")
    env = dict(os.environ)
    env["RUST_BACKTRACE"] = "0"
    env.pop("RUST_LOG", None)
    timed_out = False
    with open(out_path, "wb") as so, open(err_path, "wb") as se:
        si = open(stdin_path, "rb") if stdin_path else subprocess.DEVNULL
        try:
            p = subprocess.run([kp] + cmd, cwd=d, stdin=si, stdout=so, stderr=se, env=env, timeout=KP_TIMEOUT)
            rc = p.returncode
        except subprocess.TimeoutExpired:
            timed_out, rc = True, None
        finally:
            if stdin_path:
                si.close()
    stderr_head = re.sub(r"\(\d+\) ", "", open(err_path, "rb").read(600).decode("utf-8", "replace")).replace(d + os.sep, "")
    stderr_nonempty = os.path.getsize(err_path) > 0
    cmd_shown = [a.replace(d + os.sep, "") for a in cmd]      # reported without the scratch directory
    abnormal = rc is not None and (rc == 101 or rc < 0)         # panic, or killed by a signal
    if shape["compare"] == "nopanic":
        # Kp.tla ForeignLineEnds: nothing is specified about this input but that the program does not end abnormally
        fails = []
        if timed_out:
            fails.append({"what": "hang", "msg": "kp did not finish within %ds" % KP_TIMEOUT})
        elif abnormal:
            fails.append({"what": "abnormal-end", "msg": "kp ended with status %s (panic or signal)" % rc})
        return {"key": key, "fails": fails, "cmd": cmd_shown,
                "observed": {"rc": rc, "timeout": timed_out, "stderr_nonempty": stderr_nonempty, "stderr_head": stderr_head,
                             "stdout_head": open(out_path, "rb").read(300).decode("utf-8", "replace")},
                "expected": {"status": shape["refstatus"], "lines": None, "compare": "nopanic"},
                "evaluations": 1, "lines": n, "refused": False, "nfail": 0, "stdout_ok": False}
    # ---- the library
    # Where the specification leaves the end of a --roundtrip run with failing tuples open, an error end
    # (message, non-zero status) is admitted: what was written before must be the first lines of the prediction.
    refused = bool(shape.get("refusal_open")) and rc not in (0, None) and stderr_nonempty and not abnormal
    o = shape["opts"]
    job = {"id": key, "def": op_def(shape), "mode": shape["mode"],
           "d": None if o["d"] == NOOPT else o["d"], "D": None if o["D"] == NOOPT else o["D"],
           "tuples": tuples_path if shape["status"] == "ok" else None,
           "observed": out_path, "expected_out": os.path.join(d, "expected.txt"),
           "compare": "prefix" if (refused and shape["compare"] == "numbers") else shape["compare"],
           "slack": SLACK[shape["opx"] - 1] if shape["op"] == "ok" else 0.5,
           "dclass": shape.get("decimals", "shown")}
    jp, rp = os.path.join(d, "job.ndjson"), os.path.join(d, "result.ndjson")
    with open(jp, "w") as fh:
        fh.write(json.dumps(job) + "\n")
    g = subprocess.run([gvh, "jobs", jp, rp], cwd=d, stdout=subprocess.PIPE, stderr=subprocess.STDOUT, text=True, timeout=1800)
    if g.returncode != 0:
        raise vlib.ToolError("gvh_kp failed (%d): %s" % (g.returncode, g.stdout[-2000:]))
    lib = json.loads(open(rp).read().splitlines()[0])
    for k in ("tool_error", "oracle_panic", "oracle_error"):
        if lib.get(k):
            raise vlib.ToolError("gvh_kp could not compute the library's result for %s: %s" % (cmd, lib[k]))
    if lib["op_ok"] != (shape["op"] == "ok"):
        raise vlib.ToolError("the binding's operation table is stale: %r accepted=%s" % (op_def(shape), lib["op_ok"]))
    # the family must not be vacuous: the library really fails on exactly the lines the specification marks
    if shape["fam"] in ("F", "H") and "successes" in lib:
        if lib["successes"] != n - nfail:
            raise vlib.ToolError("the library counts %d successes, the specification marks %d of %d lines as failing (%s)"
                                 % (lib["successes"], nfail, n, op_def(shape)))
        # ... and, under --roundtrip, in the second pass exactly on those marked as failing in both (this is what decides
        # whether a refusal is admitted)
        if shape["opts"]["rt"] and lib["successes2"] != n - nfail2:
            raise vlib.ToolError("the library counts %d successes in the second pass, the specification marks %d of %d lines as "
                                 "failing there (%s)" % (lib["successes2"], nfail2, n, op_def(shape)))
    if shape.get("decimals") != "shown" and shape["compare"] == "numbers" and shape["op"] == "ok" and SLACK[shape["opx"] - 1] != 0.5:
        raise vlib.ToolError("decimals beyond the usual are only compared for operations that are exact in binary64")
    # ---- verdict against the reference prediction
    fails = []
    expected = {"status": shape["refstatus"], "lines": n_expected if shape["refstatus"] == "ok" else None,
                "compare": shape["compare"]}
    observed = {"rc": rc, "timeout": timed_out, "stderr_nonempty": stderr_nonempty, "stderr_head": stderr_head,
                "lines": lib.get("n_observed")}
    if timed_out:
        fails.append({"what": "hang", "msg": "kp did not finish within %ds" % KP_TIMEOUT})
    elif shape["refstatus"] == "error":
        if rc == 0:
            fails.append({"what": "zero-status-on-error", "msg": "kp ended with status 0"})
        if not stderr_nonempty:
            fails.append({"what": "no-error-message", "msg": "nothing on stderr"})
    else:
        if not lib["count_ok"]:
            fails.append({"what": "line-count", "msg": "%d output lines for %d coordinate lines" % (lib["n_observed"], n_expected)})
        if lib.get("n_mismatch", 0):
            fails.append({"what": "line-content", "msg": "%d output lines differ from the library's result" % lib["n_mismatch"],
                          "first": lib["mismatches"]})
        if abnormal or (rc != 0 and shape.get("exit_compared", True)):
            fails.append({"what": "abnormal-end", "msg": "valid input ended with status %s%s" % (
                rc, " (panic)" if rc == 101 else "")})
    return {"key": key, "fails": fails, "cmd": cmd_shown, "observed": observed, "expected": expected,
            "evaluations": 1 + lib.get("evaluations", 0), "lines": n, "refused": refused, "nfail": nfail,
            "stdout_ok": shape["refstatus"] == "ok" and lib.get("count_ok") and not lib.get("n_mismatch", 0)}


def _work(args):
    shape, keep, corrupt = args
    try:
        return run_shape(shape, keep, corrupt)
    except vlib.ToolError as e:
        return {"key": shape_key(shape), "tool_error": str(e)}


# --------------------------------------------------------------------------
# the check
# --------------------------------------------------------------------------

PRED = ("status", "refstatus", "mode", "ones", "fills", "out", "rules", "compare", "decimals", "exit_compared", "refusal_open")


def model(res, tier):
    """TLC runs; returns (shapes, sexa table).  The prediction must not depend on B."""
    cfgs = ["MC_C20_q", "MC_C20_q4"] if tier == "quick" else ["MC_C20_t", "MC_C20_t5"]
    per_cfg = []
    sexa = None
    for cfg in cfgs:
        r = vlib.tlc_must_pass(vlib.tlc("MC_C20", cfg, workers=4, timeout=1500, xmx="6g"))
        vlib.require_coverage(r, ACTIONS)
        res.add_tlc(r)
        recs = r["records"].get("SHAPE", [])
        if not recs:
            raise vlib.ToolError("no shapes exported by " + cfg)
        main = {}
        for x in recs:
            k = shape_key(x)
            if x["refused"]:
                continue
            if k in main:
                raise vlib.ToolError("two complete behaviours for one shape in " + cfg)
            main[k] = x
        for x in recs:
            if x["refused"]:
                main[shape_key(x)]["refusal_open"] = True
        for x in main.values():
            # the binding's reading of the `fail` patterns, checked against the specification at TLC's B
            mine = sum(len(fail_offsets(it, x["B"] - 2 if it["rep"] == "fill" else 1))
                       for f in x["files"] for it in f["items"] if it["t"] == "c")
            mine2 = sum(len(fail_offsets(it, x["B"] - 2 if it["rep"] == "fill" else 1))
                        for f in x["files"] for it in f["items"] if it["t"] == "c" and it["fk"] == "both")
            if mine != x["nfail"] or mine2 != x["nfail2"]:
                raise vlib.ToolError("binding and specification disagree on the failing lines of %s" % json.dumps(x)[:300])
            # ... and of the column mixtures
            for f in x["files"]:
                for it in f["items"]:
                    if it["t"] == "c" and not (it["cols"] in (0, 10) or 1 <= it["cols"] <= MAXCOLS):
                        raise vlib.ToolError("unknown column pattern %r" % it["cols"])
            if len(x["rules"]) != MAXCOLS:
                raise vlib.ToolError("the specification's MaxCols is not the binding's")
        per_cfg.append(main)
        sexa = r["records"]["SEXA"][0]["tab"]
    a, b = per_cfg
    if set(a) != set(b):
        raise vlib.ToolError("the two TLC runs explored different shapes")
    for k in a:
        if any(a[k].get(f) != b[k].get(f) for f in PRED):
            raise vlib.ToolError("the specification's prediction depends on B for shape %s" % json.dumps(a[k])[:400])
    return [a[k] for k in sorted(a)], sexa


def deviated(tier):
    """status per shape with the named deviation switched on (only needed when a finding is registered)"""
    r = vlib.tlc_must_pass(vlib.tlc("MC_C20", "MC_C20_q_dev" if tier == "quick" else "MC_C20_t_dev", workers=4, timeout=1500))
    return {shape_key(x): x["status"] for x in r["records"].get("SHAPE", []) if not x["refused"]}


def feature(shape):
    """the corner of the input space a shape belongs to (part of a violation's signature)"""
    items = [it for f in shape["files"] for it in f["items"] if it["t"] == "c"]
    if any(f.get("nl") == "cr" for f in shape["files"]):
        return "cr-line-ends"
    if any(it["cols"] > 4 for it in items):
        return "surplus-columns"
    if shape.get("decimals") == "beyond":
        return "decimals-beyond-binary64"
    if shape["opts"]["d"] > 9:
        return "many-decimals"
    if any(it["fail"] != "none" and it["fk"] == "both" for it in items):
        return "lines-failing-in-both-passes"
    if any(it["fail"] != "none" for it in items):
        return "lines-failing-in-one-pass"
    if any(f.get("nl") == "crlf" for f in shape["files"]) or any(it["sep"] != "sp" for it in items):
        return "crlf-or-tabs"
    return "plain"


def nontrivial(shape):
    """something other than 'one file of complete decimal tuples in one batch, printed forward'"""
    items = [it for f in shape["files"] for it in f["items"]]
    return (shape["refstatus"] != "ok" or len(shape["files"]) > 1 or shape["mode"] != "fwd"
            or any(it["t"] != "c" or it["tail"] or it["form"] == "sexa" or it["cols"] != 4 or it["rep"] == "fill" for it in items)
            or shape["opts"]["z"] or shape["opts"]["t"] or shape["opts"]["D"] not in (4, NOOPT)
            or any(f["src"] != "file" for f in shape["files"]))


def size_class(shape):
    ncoord = shape["ones"] + shape["fills"] * (BREAL - 2)
    if shape["refstatus"] == "open":
        return "unspecified-input"
    if shape["refstatus"] != "ok":
        return "error-expected"
    if ncoord == 0:
        return "no-coordinate-lines"
    if ncoord % BREAL == 0:
        return "whole-batches"
    return "other"


def execute(shapes, sexa, keep=False, corrupt=False):
    root = os.path.join(vlib.WORK, "c20")
    os.makedirs(root, exist_ok=True)
    kp = vlib.build_kp()
    gvh = vlib.build_harness("gvh_kp")
    # big ones first, so that the pool drains evenly
    order = sorted(range(len(shapes)), key=lambda i: -(shapes[i]["fills"]))
    results = [None] * len(shapes)
    with ProcessPoolExecutor(max_workers=WORKERS, initializer=_init_worker, initargs=(kp, gvh, sexa, root)) as ex:
        for i, r in zip(order, ex.map(_work, [(shapes[i], keep, corrupt) for i in order], chunksize=1)):
            results[i] = r
    for r in results:
        if r.get("tool_error"):
            raise vlib.ToolError(r["tool_error"])
    return results


def run(tier, seed):
    res = vlib.Result(PROP, tier, seed, "model_checking")
    vlib.build_kp()
    vlib.build_harness("gvh_kp")
    shapes, sexa = model(res, tier)
    t0 = time.time()
    results = execute(shapes, sexa)
    vlib.log("[C20] %d shapes instantiated with B=%d and run through kp in %.1fs" % (len(shapes), BREAL, time.time() - t0))
    kf = {k.get("deviation"): k for k in vlib.known_findings(PROP)}
    dev = deviated(tier) if "DEV_EmptyFinalBatch" in kf else {}
    fam, sizes, lines = {}, {}, 0
    res.extra["failing_coordinate_lines"] = sum(r["nfail"] for r in results)
    res.extra["shapes_with_failing_lines"] = sum(1 for r in results if r["nfail"])
    res.extra["roundtrip_runs_refused_by_kp"] = sum(1 for r in results if r["refused"])
    # small inputs first: the replay file of a signature is its smallest instance
    for s, r in sorted(zip(shapes, results), key=lambda sr: (sr[1]["lines"], len(json.dumps(sr[0])))):
        fam[s["fam"]] = fam.get(s["fam"], 0) + 1
        sizes[size_class(s)] = sizes.get(size_class(s), 0) + 1
        lines += r["lines"]
        res.evaluations += r["evaluations"]
        if not r["fails"]:
            res.behaviours_replayed += 1
            continue
        whats = sorted(f["what"] for f in r["fails"])
        # the registered deviation: everything the reference demands of stdout holds, only the end is abnormal,
        # and the specification with the deviation switched on predicts exactly that
        if whats == ["abnormal-end"] and r["stdout_ok"] and dev.get(r["key"]) == "error" and s["status"] == "ok":
            k = kf["DEV_EmptyFinalBatch"]
            res.add_known(k.get("id", "DEV_EmptyFinalBatch"), k.get("what", "kp ends abnormally when the final batch is empty"))
            continue
        res.add_violation({"suite": "kp", "what": "+".join(whats), "def": " ".join(["kp"] + [json.dumps(a) if " " in a else a for a in r["cmd"]]),
                           "shape": s, "fails": r["fails"], "expected": r["expected"], "observed": r["observed"],
                           "signature": "%s|%s|%s" % ("+".join(whats), size_class(s), feature(s))})
    res.distinct_nontrivial = len({shape_key(s) for s in shapes if nontrivial(s)})
    res.exhaustive = True
    res.extra["shapes_per_family"] = fam
    res.extra["shapes_per_size_class"] = sizes
    res.extra["input_lines_processed_by_kp"] = lines
    res.extra["real_batch_size"] = BREAL
    feats = {}
    for s in shapes:
        feats[feature(s)] = feats.get(feature(s), 0) + 1
    res.extra["shapes_per_feature"] = feats
    res.rule = ("TLC runs the kp machine (reader, batcher, transformer, formatter, exit status) on every shape of the families "
                "A (blank/white-space/comment lines in every gap relative to the batch boundaries), B (the same lines split over 2-3 "
                "files and stdin at every position, with and without final newline), C (option sets over --inv, --roundtrip, -z, -t, "
                "-d, -D on eight lines of 1-4 columns in decimal and sexagesimal notation; and on multi-batch inputs), D (mixtures of "
                "column counts, notations, trailing comments), E (refused operations, missing files at every argument position), F (valid "
                "operation with a domain limit, coordinate lines outside it - the library returns NaN and counts fewer successes than "
                "tuples - at the first / middle / last position of a batch and in the final partial batch, one item, two items, every "
                "line, forward, --inv and --roundtrip: still one output line per coordinate line, each the library's result), G (-d 15, "
                "400, 65535, 65536, 100000 with every -D and mode on eight lines, exact operations), H (NaN lines under `cart`, which "
                "reports them in both directions, at the same positions as F: the two passes of --roundtrip report the same number, so "
                "the run must not be refused and every line must be the residual of its own tuple), S (lines of 5, 6, 7, 9 columns "
                "alone, in whole batches and in mixtures; columns separated by tabs and by repeated blanks with leading and trailing "
                "white space; CR LF line ends, with blank lines and comments on both sides of every batch boundary and different "
                "terminators in two files; files with lone carriage returns: no abnormal end), for the "
                "coordinate counts k*B + r, k in 0..2, r in {0, 1, B-1}, with B = 3 and B = 4 (quick) / 5 (thorough); the emitted "
                "prediction must be the same for both B. Every shape is instantiated with B = 25000 and run through the real kp; "
                "stdout is compared line by line (token by token, -d decimals, -D tokens) with the library's in-process result for "
                "the tuple the specification assigns to the line; exit status 0 / non-zero + message on stderr as predicted. "
                "Non-trivial = distinct shapes that are not 'one file of complete decimal 4-column single lines, forward, -D 4'.")
    res.samples = [{"shape": s, "cmd": r["cmd"], "lines": r["lines"]} for s, r in list(zip(shapes, results))[:: max(1, len(shapes) // 3)]][:3]
    res.assumptions = [
        "the library is the numeric oracle: operations " + ", ".join(OK_OPS) + " (context Plain, as kp); no absolute number is expected anywhere",
        "output without -d (decimals) or without -D (dimension) is documented as a guess: only the number of output lines is compared there",
        "an element whose column is present while -z/-t is given is not compared (statement: default for missing; help text: fixed for all coordinates)",
        "roundtrip residuals are compared by magnitude (the sign convention of a residual is not documented); -0.0 and 0.0 are the same text",
        "a rounding tie may be broken either way (a token within half a unit of the last place of the library's value, with exactly d decimals, is accepted); "
        "for 'geo:in | utm zone=32', the one operation that is not exact in binary64, 2.5 units of the last place are accepted (kp and the harness are two builds of the library)",
        "when the run must end with an error, stdout is not compared (the statement only demands a message and a non-zero status)",
        "columns are separated by white space (a blank, a tab, several of them; also before the first and after the last column); lines end in "
        "LF or CR LF; sexagesimal notations are D:M:S / D:M with N E S W or a leading minus, values exact in binary64",
        "a line with more than 4 columns is a coordinate line (statement: 'for any input text, one output line per coordinate line'): it must get "
        "exactly one output line of -D numbers at its place and the run must end normally; what the numbers are is not compared, because "
        "the documentation does not say what becomes of surplus columns (every other line of the same input is compared as usual)",
        "a file whose lines end in lone carriage returns is covered neither by the documentation nor by the platform's notion of a text line: "
        "only 'no panic, no signal, no hang' is judged for an input that contains one",
        "-d beyond 9: only operations that are exact in binary64 are used (" + ", ".join(OK_OPS[i] for i in range(len(OK_OPS)) if SLACK[i] == 0.5) +
        "); up to 1074 decimals (all a binary64 number has) every token must have exactly -d decimals and be the library's number; beyond that "
        "the token must be a decimal number denoting the library's number, the count of zeros written is not compared",
        "-D 0 or -D > 4, -o, -e, tokens that are not numbers are outside the statement and not judged",
        "when the operation is valid but the library fails on some tuples, the documentation does not say how the run ends: the exit status is not "
        "compared there (a panic still is an alarm); under --roundtrip an error end (message, non-zero status) is admitted as well when the two "
        "passes over a batch report different numbers of transformed tuples (kp's message says so), and what was written before it must be "
        "the first lines of the prediction (extra: roundtrip_runs_refused_by_kp); when the two passes report the same number the batch must be printed",
        "families F and H check against vacuity that the library's success count, in the first and under --roundtrip in the second pass, equals "
        "lines minus the lines the specification marks as failing in that pass",
        "`cart` (family H) gets longitude/latitude in radians and heights, or geocentric coordinates of points near the surface, depending on the "
        "direction applied first; at most 6 decimals are compared there (a residual of 1e-9 m is below what two builds of the library must agree on)",
    ]
    return res.finish()


def replay(path):
    with open(path) as f:
        v = json.load(f)
    shape = v.get("shape")
    if not shape:
        print("replay file has no shape")
        return 2
    sexa = vlib.tlc_must_pass(vlib.tlc("MC_C20", "MC_C20_q", workers=4, timeout=900))["records"]["SEXA"][0]["tab"]
    r = execute([shape], sexa)[0]
    print("kp " + " ".join(json.dumps(a) if " " in a else a for a in r["cmd"]))
    print("expected:", json.dumps(r["expected"]), "observed:", json.dumps(r["observed"])[:600])
    if r["fails"]:
        print("VIOLATION property=%s replay=%s" % (PROP, path))
        print(json.dumps(r["fails"])[:2000])
        return 1
    print("replay passes on the current tree")
    return 0


def selftest(seed):
    """Corrupt one expected tuple and require the comparison to notice."""
    res = vlib.Result(PROP, "quick", seed, "model_checking")
    shapes, sexa = model(res, "quick")
    cand = [s for s in shapes if s["fam"] == "C" and s["compare"] == "numbers" and s["refstatus"] == "ok"
            and s["opts"]["d"] >= 3 and not s["opts"]["rt"]
            and SLACK[s["opx"] - 1] == 0.5][:8]      # a translation: one unit more in, one unit more out, in either direction
    results = execute(cand, sexa, corrupt=True)
    ok = all(any(f["what"] == "line-content" for f in r["fails"]) for r in results)
    print("selftest:", "corruption detected" if ok else "corruption NOT detected")
    return 0 if ok else 2
