"""C09 — no definition string and no coordinate value can make the library panic or hang.

TLC (spec/Gamut.tla) generates the inputs from the catalogue of operators, gamuts and adversarial pools;
harness/src/bin/gvh_robust.rs executes them against the real library, one call/return event pair per call,
supervised by this driver (watchdog, address space limit, crash attribution and resumption);
TLC validates the recorded trace against spec/Trace_C09.tla, which has no action for panic / crash / timeout.
"""
import collections, concurrent.futures, json, os, re, resource, shutil, subprocess, time
import vlib

PROP = "C09"
BEH = os.path.join(vlib.WORK, "beh")
AS_LIMIT = 4 << 30            # address space of the recorder (bytes)
CPU_HANG_S = 5.0              # a call that burns this much CPU without returning hangs ...
CPU_PER_TUPLE_S = 0.002       # ... plus this much per tuple of the coordinate set it was given
WALL_HANG_S = 120.0           # ... or that long without using any CPU (blocked)
SEG_EVENTS = 4000             # the recorder emits a reset (fresh contexts, no live handles) about every so many events
FILE_EVENTS = 400000          # at most so many events per TLC run (cut at reset events)
TLC_PARALLEL = 4              # trace segments validated at the same time, one TLC worker each


# --------------------------------------------------------------------------------------------------
# generation
# --------------------------------------------------------------------------------------------------

def hook_names():
    rc, out = vlib.gvh(["names"], bin="gvh_robust")
    d = json.loads(out.strip().splitlines()[-1])
    return d["builtins"], d["ellipsoids"]


def gen(cfg, ellps_path, simulate=None, seed=None, depth=8, timeout=1500):
    # simulation with one worker and a seed is reproducible (several workers are not)
    r = vlib.tlc("MC_C09", "MC_C09_" + cfg, workers=1 if simulate else 4, timeout=timeout, env={"ELLPS": ellps_path},
                 simulate=simulate, depth=depth if simulate else None, seed=seed if simulate else None,
                 tag="C09-" + cfg)
    vlib.tlc_must_pass(r)
    return r


def dedup(records, key):
    seen, out = set(), []
    for r in records:
        k = key(r)
        if k not in seen:
            seen.add(k)
            out.append(r)
    return out


def source_gamut_keys():
    """(kind, key) pairs of every GAMUT table in the code under test: drift detector for the catalogue."""
    found = set()
    d = os.path.join(vlib.REPO, "src", "inner_op")
    for fn in sorted(os.listdir(d)):
        if fn.endswith(".rs"):
            src = open(os.path.join(d, fn)).read().split("#[cfg(test)]")[0]
            src = "\n".join(l for l in src.splitlines() if not l.strip().startswith("//"))
            for kind, key in re.findall(r'OpParameter::(\w+)\s*\{\s*key:\s*"([^"]+)"', src):
                found.add((kind.lower(), key))
    return found


# --------------------------------------------------------------------------------------------------
# recording, supervised
# --------------------------------------------------------------------------------------------------

def _limits():
    resource.setrlimit(resource.RLIMIT_AS, (AS_LIMIT, AS_LIMIT))
    resource.setrlimit(resource.RLIMIT_CORE, (0, 0))


def _cpu_seconds(pid):
    try:
        with open("/proc/%d/stat" % pid) as f:
            parts = f.read().rsplit(")", 1)[1].split()
        return (int(parts[11]) + int(parts[12])) / os.sysconf("SC_CLK_TCK")
    except Exception:
        return None


def _last_event(path):
    with open(path, "rb") as f:
        f.seek(0, 2)
        size = f.tell()
        f.seek(max(0, size - 65536))
        tail = f.read().decode("utf-8", "replace")
    lines = [l for l in tail.splitlines() if l.strip()]
    for l in reversed(lines):
        try:
            return json.loads(l)
        except Exception:
            continue          # a torn last line cannot happen after a flush, but be safe
    return None


def record(jobs, sets, tag, max_abnormal, cpu_hang=CPU_HANG_S):
    """Run the recorder over all jobs. Returns (trace path, stats)."""
    os.makedirs(BEH, exist_ok=True)
    jobs_path = os.path.join(BEH, tag + ".jobs.ndjson")
    sets_path = os.path.join(BEH, tag + ".sets.json")
    trace = os.path.join(BEH, tag + ".trace.ndjson")
    scratch = os.path.join(vlib.WORK, "robust-scratch", tag)
    shutil.rmtree(scratch, ignore_errors=True)
    os.makedirs(scratch, exist_ok=True)
    vlib.write_ndjson(jobs_path, jobs)
    with open(sets_path, "w") as f:
        json.dump(sets, f)
    if os.path.exists(trace):
        os.remove(trace)
    exe = vlib.build_harness("gvh_robust")
    env = dict(os.environ)
    env.update({"XDG_DATA_HOME": os.path.join(scratch, "xdg"), "HOME": scratch, "RUST_BACKTRACE": "0"})
    stats = {"calls": 0, "events": 0, "panics": 0, "crashes": 0, "timeouts": 0, "restarts": 0, "not_recorded_jobs": 0}
    start_job, skip_slot, next_id = 0, -1, 0
    per_job = collections.Counter()
    t_end = time.time() + 3000
    while True:
        cmd = [exe, "record", jobs_path, sets_path, trace, scratch, str(start_job), str(skip_slot), str(next_id), "0", str(SEG_EVENTS)]
        p = subprocess.Popen(cmd, cwd=vlib.VERIF, env=env, stdout=subprocess.PIPE, stderr=subprocess.PIPE, text=True,
                             preexec_fn=_limits)
        verdict = None
        size0, cpu0, wall0 = -1, 0.0, time.time()
        while True:
            try:
                p.wait(timeout=0.25)
                break
            except subprocess.TimeoutExpired:
                pass
            size = os.path.getsize(trace) if os.path.exists(trace) else 0
            cpu = _cpu_seconds(p.pid)
            now = time.time()
            if size != size0:
                size0, cpu0, wall0 = size, (cpu or 0.0), now
                continue
            burning = cpu is not None and cpu - cpu0 > cpu_hang
            blocked = cpu is not None and now - wall0 > WALL_HANG_S and cpu - cpu0 < 1.0
            if burning or blocked:
                last = _last_event(trace) if size else None
                if last and last.get("ev") == "call" and not blocked and cpu - cpu0 <= cpu_hang + CPU_PER_TUPLE_S * last.get("n", 0):
                    continue       # a large coordinate set: allowed more
                if last and last.get("ev") == "call":
                    verdict = "timeout"
                    p.kill()
                    p.wait()
                    break
                if now - wall0 > 600:
                    p.kill()
                    raise vlib.ToolError("the recorder made no progress outside any call for 600 s")
            if now > t_end:
                p.kill()
                raise vlib.ToolError("recording exceeded its overall time limit")
        out, err = p.communicate()
        if verdict is None and p.returncode == 0:
            sm = json.loads(out.strip().splitlines()[-1])
            stats["calls"] += sm["calls"]
            stats["panics"] += sm["panics"]
            break
        if verdict is None:
            verdict = "crash"
        last = _last_event(trace) if os.path.exists(trace) else None
        if not last or last.get("ev") != "call":
            raise vlib.ToolError("the recorder died outside any call (rc %s): %s" % (p.returncode, (err or out)[-600:]))
        msg = "killed by the watchdog: more than %.0f s of CPU inside one call" % cpu_hang if verdict == "timeout" else \
              "process died, exit status %s: %s" % (p.returncode, " ".join((err or "").split())[-300:])
        with open(trace, "a") as f:
            f.write(json.dumps({"ev": verdict, "id": last["id"], "api": last["api"], "msg": msg}) + "\n")
        stats["crashes" if verdict == "crash" else "timeouts"] += 1
        stats["restarts"] += 1
        stats["calls"] += 0
        per_job[last["j"]] += 1
        next_id = last["id"]
        start_job, skip_slot = last["j"], last["s"]
        if per_job[last["j"]] >= 4:           # this job keeps killing the recorder: leave it
            start_job, skip_slot = last["j"] + 1, -1
        if stats["restarts"] >= max_abnormal:
            stats["not_recorded_jobs"] = max(0, len(jobs) - start_job - 1)
            break
        if start_job >= len(jobs):
            break
    stats["events"] = sum(1 for _ in open(trace))
    return trace, stats


# --------------------------------------------------------------------------------------------------
# validation
# --------------------------------------------------------------------------------------------------

ABNORMAL = ("panic", "crash", "timeout")


def site_of(ev):
    """Where a call ended abnormally: panic location, or the kind of death."""
    if ev["ev"] == "panic":
        m = re.search(r"@ (\S+)$", ev.get("msg", ""))
        return "panic@" + (m.group(1) if m else "?")
    return ev["ev"] + ":" + ev.get("api", "?")


def gen_of(job):
    g = job.get("gen", {})
    if job["kind"] == "fn":
        return {"op": job["fn"], "key": json.dumps(job.get("recv", {}).get("k", "")), "cls": ",".join(job.get("args", []))}
    if g.get("mut"):
        return {"op": "mutate:" + g["base"].split(" ")[0][:20], "key": g["mut"], "cls": g.get("ch", "")}
    return {"op": g.get("op", "?"), "key": "+".join(g.get("keys", [])), "cls": "+".join(g.get("cls", []))}


def signature(call, job):
    g = gen_of(job)
    return "%s|%s|%s|%s" % (call["api"], g["op"], g["key"], g["cls"])


def replay_call(call, job, sets):
    """The exact call, self-contained, for the replay file."""
    if job["kind"] == "fn":
        return {"api": call["api"], "fn": job["fn"], "grp": job["grp"], "recv": job["recv"], "args": job["args"]}
    r = {"api": call["api"], "def": job["text"], "resources": job.get("res", [])}
    for k_ev, k_out in (("ctx", "ctx"), ("d", "dir"), ("c", "cont"), ("idx", "idx")):
        if k_ev in call:
            r[k_out] = call[k_ev]
    if call["api"] == "apply":
        lo, n = call.get("lo", 0), call.get("n", 0)
        r["tuples"] = sets[call["set"]][lo:lo + n]
    return r


_EV_RE = re.compile(r'"ev":"(\w+)"')
_API_RE = re.compile(r'"api":"([^"]+)"')
_GRP_RE = re.compile(r'"grp":"([^"]+)"')


def scan_trace(trace, jobs):
    """One streaming pass over the trace: counts, and all abnormal events by site (panic location / kind of death).
    The first abnormal call of each site stays in the trace, to be judged by TLC; the others are taken out and
    counted as its duplicates (their inputs are listed with the violation)."""
    n_events = 0
    apis, outcomes = collections.Counter(), collections.Counter()
    first, dup_ids, dups, also = {}, set(), collections.Counter(), collections.defaultdict(collections.Counter)
    last_call = None
    with open(trace) as f:
        for line in f:
            m = _EV_RE.search(line)
            if not m:
                continue
            n_events += 1
            ev = m.group(1)
            if ev == "call":
                last_call = line
                g = _GRP_RE.search(line).group(1)
                apis[_API_RE.search(line).group(1) if g in ("ctx", "proj") else g] += 1
            elif ev != "reset":
                outcomes[ev] += 1
                if ev in ABNORMAL:
                    e = json.loads(line)
                    c = json.loads(last_call) if last_call else None
                    site = site_of(e)
                    mine = c is not None and c["id"] == e["id"]
                    key = (c["j"], c["s"], c.get("n", 1)) if mine else None
                    if site not in first:
                        first[site] = (e["id"], key)
                    else:
                        rep_id, rep_key = first[site]
                        if mine and rep_key and key[:2] == rep_key[:2] and key[2] == 1 and rep_key[2] > 1:
                            # the recorder has narrowed the same application down to one tuple: that is the reproduction
                            dup_ids.discard(e["id"])
                            dup_ids.add(rep_id)
                            first[site] = (e["id"], key)
                        else:
                            dup_ids.add(e["id"])
                        dups[site] += 1
                        if mine:
                            also[site][signature(c, jobs[c["j"]])] += 1
    return {"events": n_events, "apis": apis, "outcomes": outcomes, "dup_ids": dup_ids, "dups": dups,
            "also": {k: sorted(v.items(), key=lambda kv: -kv[1])[:60] for k, v in also.items()}}


def split_segments(trace, seg_dir, n_events, dup_ids):
    """The trace in pieces for TLC, cut at reset events: about as many pieces as TLC runs in parallel, but at most
    FILE_EVENTS events each. Streaming; returns [(path, events)]."""
    shutil.rmtree(seg_dir, ignore_errors=True)
    os.makedirs(seg_dir)
    size = min(FILE_EVENTS, max(20000, n_events // TLC_PARALLEL + 1))
    segs, out, count = [], None, 0
    with open(trace) as f:
        for line in f:
            if not line.strip():
                continue
            if out is None or (count >= size and '"ev":"reset"' in line):
                if out is not None:
                    out.close()
                    segs[-1] = (segs[-1][0], count)
                path = os.path.join(seg_dir, "seg%04d-0.ndjson" % len(segs))
                out, count = open(path, "w"), 0
                segs.append((path, 0))
            if dup_ids and '"ev":"reset"' not in line and json.loads(line).get("id") in dup_ids:
                continue
            out.write(line)
            count += 1
    if out is not None:
        out.close()
        segs[-1] = (segs[-1][0], count)
    return segs


def validate_segment(idx, path, n):
    """TLC over one segment; after a rejection the offending call is taken out and the rest is validated again.
    Returns (rejections, accepted_events, states, generated)."""
    rejections, states, generated, accepted, round_ = [], 0, 0, 0, 0
    while n:
        info = vlib.tlc_trace("Trace_C09", path, tag="Trace_C09-%04d" % idx, timeout=1500)
        states += info["states"]
        generated += info["generated"]
        if info["accepted"]:
            accepted = n
            break
        events = vlib.read_ndjson(path)
        k = info["matched"]            # index of the event no action matches
        bad = events[k]
        call = next((e for e in reversed(events[max(0, k - 50):k]) if e["ev"] == "call" and e.get("id") == bad.get("id")), None)
        rejections.append({"event": bad, "call": call, "matched_before": k,
                           "site": site_of(bad) if bad["ev"] in ABNORMAL else "unmatched:" + bad["ev"]})
        if bad["ev"] not in ABNORMAL or call is None or round_ >= 25:
            break                      # ill-formed trace (not a totality question), or far too many sites: stop here
        events = [e for e in events if e.get("id") != bad["id"]]
        round_ += 1
        path = path.replace("-%d.ndjson" % (round_ - 1), "-%d.ndjson" % round_)
        vlib.write_ndjson(path, events)
        n = len(events)
    return rejections, accepted, states, generated


def validate(trace, jobs, seg_dir):
    """Scan, split, and let TLC judge every piece (TLC_PARALLEL at a time)."""
    sc = scan_trace(trace, jobs)
    segs = split_segments(trace, seg_dir, sc["events"], sc["dup_ids"])
    rejections, accepted_segments, accepted_events, states, generated = [], 0, 0, 0, 0
    with concurrent.futures.ThreadPoolExecutor(TLC_PARALLEL) as ex:
        futs = [ex.submit(validate_segment, i, pth, n) for i, (pth, n) in enumerate(segs)]
        for fu in futs:
            rej, acc, s, g = fu.result()
            rejections += rej
            accepted_events += acc
            accepted_segments += 0 if rej else 1
            states += s
            generated += g
    for rj in rejections:
        rj["duplicates"] = sc["dups"].get(rj["site"], 0)
        rj["also"] = sc["also"].get(rj["site"], [])
    return {"scan": sc, "segments": segs, "rejections": rejections, "accepted_segments": accepted_segments,
            "accepted_events": accepted_events, "states": states, "generated": generated}


def binding_selftest(events):
    """The binding binds: a trace with an injected panic / timeout / wrong kind of return must be rejected there."""
    events = events[:3000]
    # cut at a call boundary
    while events and events[-1]["ev"] == "call":
        events = events[:-1]
    rets = [i for i, e in enumerate(events) if e["ev"].startswith("ret_")]
    ops = [i for i, e in enumerate(events) if e["ev"] == "ret_ok" and "h" in e]
    if len(rets) < 10:
        raise vlib.ToolError("self-test: the trace is too short")
    cases = []
    i = rets[len(rets) // 2]
    cases.append(("panic", i, {"ev": "panic", "id": events[i]["id"], "msg": "injected"}))
    i = rets[len(rets) // 3]
    cases.append(("timeout", i, {"ev": "timeout", "id": events[i]["id"], "msg": "injected"}))
    if ops:
        i = ops[len(ops) // 2]
        cases.append(("wrong-return", i, {"ev": "ret_count", "id": events[i]["id"], "count": 1}))
    ok = True
    for name, i, inj in cases:
        bad = [dict(e) for e in events]
        bad[i] = inj
        path = os.path.join(BEH, "C09-selftest-%s.ndjson" % name)
        vlib.write_ndjson(path, bad)
        info = vlib.tlc_trace("Trace_C09", path, tag="Trace_C09-selftest")
        ok &= (not info["accepted"]) and info["matched"] == i
    good = os.path.join(BEH, "C09-selftest-good.ndjson")
    vlib.write_ndjson(good, events)
    ok &= vlib.tlc_trace("Trace_C09", good, tag="Trace_C09-selftest")["accepted"]
    return ok


# --------------------------------------------------------------------------------------------------
# the check
# --------------------------------------------------------------------------------------------------

def def_job(text, res, sets, conts, gen):
    return {"kind": "def", "text": text, "res": res, "sets": sets, "conts": conts, "gen": gen}


def run(tier, seed):
    res = vlib.Result(PROP, tier, seed, "model_checking")
    vlib.build_harness("gvh_robust")
    q = tier == "quick"
    os.makedirs(BEH, exist_ok=True)
    builtins, ellipsoids = hook_names()
    ellps_path = os.path.join(BEH, "C09-ellps.json")
    with open(ellps_path, "w") as f:
        json.dump(ellipsoids, f)

    # ---- TLC: the generators -------------------------------------------------------------------
    r_defs = gen("defs_q" if q else "defs_t", ellps_path)
    vlib.require_coverage(r_defs, ["SetKey", "Wrap"])
    res.add_tlc(r_defs)
    cat = r_defs["records"]["CATALOGUE"][0]
    defs = r_defs["records"]["DEF"]
    # model-level check: every (operator, key, pool class) of the catalogue is generated
    expected = {(o["name"], k["k"], c) for o in cat["ops"] for k in o["keys"] for c in k["cls"]}
    got = {(d["op"], d["keys"][0], d["cls"][0]) for d in defs if d["wrap"] == "alone"}
    if expected != got:
        raise vlib.ToolError("generator does not cover the catalogue: %d missing, %d unexpected, e.g. %s"
                             % (len(expected - got), len(got - expected), sorted(expected - got)[:3]))
    wraps_seen = collections.Counter(d["wrap"] for d in defs)
    r_pairs = gen("pairs", ellps_path, simulate=150 if q else 6000, seed=seed)
    res.add_tlc(r_pairs)
    pairs = dedup(r_pairs["records"].get("DEF", []), lambda d: d["text"] + json.dumps(d["res"]))
    r_mut = gen("mut_q" if q else "mut_t", ellps_path)
    vlib.require_coverage(r_mut, ["Mutate"])
    res.add_tlc(r_mut)
    muts = r_mut["records"]["MUT"]
    r_ms = gen("mutsim", ellps_path, simulate=250 if q else 15000, seed=seed)
    res.add_tlc(r_ms)
    muts += r_ms["records"].get("MUT", [])
    muts = dedup(muts, lambda m: m["text"])
    r_coord = gen("coord", ellps_path)
    vlib.require_coverage(r_coord, ["SetElem"])
    res.add_tlc(r_coord)
    coords = r_coord["records"]["COORD"]
    r_cs = gen("coordsim", ellps_path, simulate=500 if q else 15000, seed=seed)
    res.add_tlc(r_cs)
    sim_coords = dedup(r_cs["records"].get("COORD", []), lambda c: tuple(c["t"]))
    if min(len(pairs), len(sim_coords), len(r_ms["records"].get("MUT", []))) == 0:
        raise vlib.ToolError("vacuous: a -simulate generator run emitted nothing")
    r_fn = gen("fn_q" if q else "fn_t", ellps_path)
    vlib.require_coverage(r_fn, ["PickRecv", "SetArg"])
    res.add_tlc(r_fn)
    fns = r_fn["records"]["FN"]

    # catalogue drift: built-ins the catalogue does not know are reported, not judged
    cat_names = {o["name"] for o in cat["ops"]}
    res.uncovered = ["builtin:" + n for n in builtins if n not in cat_names]
    cat_keys = {(k["kind"], k["k"]) for o in cat["ops"] for k in o["keys"]}
    res.uncovered += ["gamut-key:%s:%s" % kk for kk in sorted(source_gamut_keys() - cat_keys)]
    catalogue_only = sorted(cat_names - set(builtins))

    # ---- jobs ----------------------------------------------------------------------------------
    sets = {"small": [c["t"] for c in coords if c["n"] == 1],
            "full": [c["t"] for c in coords],
            "sim": [c["t"] for c in sim_coords]}
    jobs = []
    # every operator's base definition and the definitions with sugar: the whole coordinate product,
    # every container kind, both directions, both contexts
    bases = [(o["name"], o["base"]) for o in cat["ops"]]
    specials = cat["special"]
    macro = [["m:c09", "cart ellps=$ellps(GRS80)"]]
    for name, text in bases:
        jobs.append(def_job(text, macro, ["full", "sim"], 8, {"op": name, "keys": ["-"], "cls": ["base"], "wrap": "alone"}))
        jobs.append(def_job("stack push=1,2,3,4 | stack push=1,2,3,4 | %s | stack pop=1,2,3,4 | stack pop=1,2,3,4" % text, macro, ["full"], 2,
                            {"op": name, "keys": ["-"], "cls": ["base"], "wrap": "step"}))
    for text in specials:
        jobs.append(def_job(text, macro, ["full", "sim"], 8, {"op": "special", "keys": ["-"], "cls": [text[:30]], "wrap": "alone"}))
    n_base = len(jobs)
    for i, d in enumerate(defs + pairs):
        # thorough: every 8th definition also sees the whole coordinate product
        s = ["small"] if (q or i % 8) else ["small", "full"]
        jobs.append(def_job(d["text"], d["res"], s, 2, {"op": d["op"], "keys": d["keys"], "cls": d["cls"], "wrap": d["wrap"]}))
    for f in fns:
        jobs.append({"kind": "fn", "fn": f["fn"], "grp": f["grp"], "recv": f["recv"], "args": f["args"]})
    for m in muts:
        jobs.append(def_job(m["text"], m["res"], ["small"], 2,
                            {"mut": m["kind"], "ch": m["ch"], "pos": m["pos"], "base": m["base"], "n": m["n"]}))

    # ---- record --------------------------------------------------------------------------------
    vlib.log("[C09] generated %d jobs (%d definitions, %d pairwise, %d mutated, %d function calls) in %.1fs"
             % (len(jobs), len(defs), len(pairs), len(muts), len(fns), time.time() - res.t0))
    t0 = time.time()
    trace, st = record(jobs, sets, "C09-" + tier, max_abnormal=int(os.environ.get("C09_MAX_ABNORMAL", 12 if q else 40)))
    vlib.log("[C09] recorded in %.1fs: %s" % (time.time() - t0, st))

    # ---- validate ------------------------------------------------------------------------------
    t0 = time.time()
    seg_dir = os.path.join(BEH, "C09-%s-segments" % tier)
    val = validate(trace, jobs, seg_dir)
    sc, segs, rejections = val["scan"], val["segments"], val["rejections"]
    st["calls"] = sum(sc["apis"].values())
    st["panics"] = sc["outcomes"].get("panic", 0)
    res.evaluations = st["calls"]
    res.states += val["states"]
    res.transitions += val["generated"]
    res.trace_events += val["accepted_events"]
    res.trace_segments_accepted += val["accepted_segments"]
    vlib.log("[C09] validated %d events in %d segments in %.1fs, %d rejected" % (val["accepted_events"], len(segs), time.time() - t0, len(rejections)))
    by_sig = {}
    for rj in rejections:
        call, bad = rj["call"], rj["event"]
        if call is None:
            res.add_violation({"suite": "robust", "what": "trace ill-formed: event without its call", "event": bad,
                               "signature": "illformed|" + json.dumps(bad, sort_keys=True)[:200]})
            continue
        job = jobs[call["j"]]
        sig = signature(call, job) if bad["ev"] in ABNORMAL else "unmatched|" + bad["ev"] + "|" + call["api"]
        if sig in by_sig:
            by_sig[sig]["duplicates"] += 1 + rj["duplicates"]
            continue
        v = {"suite": "robust",
             "what": "%s in %s" % (bad["ev"], call["api"]) if bad["ev"] in ABNORMAL else
                     "%s is not a way in which %s may be over" % (bad["ev"], call["api"]),
             "observed": bad.get("msg", bad["ev"]), "expected": "the call returns (Ok / Err / count / value)",
             "site": rj["site"], "generated_from": job.get("gen", {"fn": job.get("fn")}),
             "def": job.get("text", job.get("fn")), "call": replay_call(call, job, sets),
             "rejected_event": bad, "call_event": call, "duplicates": rj["duplicates"],
             "same_site_other_inputs": rj["also"], "signature": sig}
        by_sig[sig] = v
        res.add_violation(v)

    # ---- the binding binds ---------------------------------------------------------------------
    head = []
    with open(segs[0][0]) as f:
        for line in f:
            head.append(json.loads(line))
            if len(head) >= 4000:
                break
    abn = {e["id"] for e in head if e["ev"] in ABNORMAL}
    if not binding_selftest([e for e in head if e.get("id") not in abn]):
        raise vlib.ToolError("trace validation is vacuous: a trace with an injected panic / timeout was accepted, or a clean one rejected")

    # ---- evidence ------------------------------------------------------------------------------
    triples = len(expected)
    res.distinct_nontrivial = triples
    apis, outcomes = sc["apis"], sc["outcomes"]
    picks = [n_base + len(defs) // 3, n_base + len(defs) + len(pairs) // 2,
             n_base + len(defs) + len(pairs) + len(fns) // 2, len(jobs) - 1 - len(muts) // 2, 0]
    res.samples = [jobs[i] for i in picks if 0 <= i < len(jobs)]
    res.exhaustive = True
    res.extra = {"recorder": st, "segments": len(segs), "calls_by_api": dict(apis), "outcomes": dict(outcomes),
                 "definitions": {"single_fault": len(defs), "by_wrap": dict(wraps_seen), "pairwise": len(pairs),
                                 "mutated": len(muts), "base": n_base},
                 "coordinate_tuples": {k: len(v) for k, v in sets.items()}, "function_calls_generated": len(fns),
                 "catalogue": {"operators": len(cat["ops"]), "op_key_pairs": sum(len(o["keys"]) for o in cat["ops"]),
                               "op_key_class_triples": triples, "catalogue_only_names": catalogue_only,
                               "ellipsoid_names": len(ellipsoids)},
                 "rejections_by_site": dict(collections.Counter(rj["site"] for rj in rejections)),
                 "abnormal_calls_grouped_as_duplicates": dict(sc["dups"])}
    res.rule = ("TLC enumerates, from the catalogue (36 operators; gamut keys with kind and default; implicit keys inv / omit_fwd / "
                "omit_inv / an unknown key), every (operator, key, pool class) triple: the definition with that key set to each value "
                "of the adversarial pool of its kind (every built-in ellipsoid name for ellps keys), alone and (quick: rotating subset; "
                "thorough: all) as a pipeline step, as a macro body, as a macro argument through $p / $p(d) / (d), and in PROJ syntax; "
                "pairs of edits by -simulate; single-character Mutate (drop, duplicate, replace, insert; syntax alphabet and multi-byte "
                "characters) of well-formed definitions exhaustively, sequences of mutations by -simulate; coordinate tuples with one "
                "and two special elements exhaustively, three and four by -simulate; calls of the angular / ellipsoid functions on "
                "special values. The driver checks that the emitted definitions cover every catalogue triple. Each definition is "
                "instantiated on Minimal and Plain; every instantiated operator is asked for steps() and params() and applied in both "
                "directions to the special coordinate sets through rotating container kinds (base definitions: the whole product "
                "through all eight kinds); the Tokenize methods and parse_proj run on every text. Every call is a call/return event "
                "pair; TLC accepts the trace iff every call is over by ret_ok / ret_err / ret_count / ret_value. distinct_nontrivial = "
                "number of (operator, key, pool class) triples generated and executed.")
    res.assumptions = ["robustness conformance over the generated grammar and pools, not arbitrary Unicode",
                       "a call hangs if it burns more than %.0f s of CPU (or blocks for %.0f s) without returning" % (CPU_HANG_S, WALL_HANG_S),
                       "abnormal calls with the same panic location as an event TLC has rejected are taken out of the remaining trace "
                       "and counted as duplicates of that violation (listed under same_site_other_inputs)",
                       "NTv2 grids and corrupted grid files belong to C15; the grid operators run on small Gravsoft grids with 1, 2 and 3 bands"]
    return res.finish()


def replay(path):
    vlib.build_harness("gvh_robust")
    v = json.load(open(path))
    call = v.get("call")
    if not call:
        print("replay file has no call")
        return 2
    os.makedirs(BEH, exist_ok=True)
    cp = os.path.join(BEH, "C09-replay-call.json")
    with open(cp, "w") as f:
        json.dump(call, f)
    scratch = os.path.join(vlib.WORK, "robust-scratch", "replay")
    os.makedirs(scratch, exist_ok=True)
    env = dict(os.environ)
    env.update({"XDG_DATA_HOME": os.path.join(scratch, "xdg"), "HOME": scratch})
    try:
        p = subprocess.run([vlib.gvh_path("gvh_robust"), "replay", cp, scratch], cwd=vlib.VERIF, env=env, timeout=30,
                           stdout=subprocess.PIPE, stderr=subprocess.PIPE, text=True, preexec_fn=_limits)
        out = p.stdout.strip()
        bad = p.returncode != 0
        what = out or ("process died, exit status %s: %s" % (p.returncode, p.stderr[-300:]))
    except subprocess.TimeoutExpired:
        bad, what = True, "the call did not return within 30 s"
    print(what)
    if bad:
        print("VIOLATION property=%s replay=%s" % (PROP, path))
        return 1
    print("replay passes on the current tree")
    return 0


def selftest(seed):
    """The supervision binds: faults injected into recorded calls (panic, abort, stack overflow, allocation beyond the
    address space limit, busy loop) must each become the matching event, the recorder must carry on after each, and TLC
    must reject the trace at exactly these events and accept it without them."""
    vlib.build_harness("gvh_robust")
    good = def_job("cart ellps=intl | helmert x=1 | cart inv", [], ["small"], 2, {"op": "selftest", "keys": ["-"], "cls": ["good"], "wrap": "alone"})
    faults = ["panic", "abort", "overflow", "alloc", "hang"]
    jobs = [good]
    for f in faults:
        jobs += [{"kind": "selftest", "fn": f}, good]
    sets = {"small": [["0.2", "0.9", "100", "2020"], ["NaN", "inf", "0", "-0"]]}
    trace, st = record(jobs, sets, "C09-selftest", max_abnormal=10, cpu_hang=1.5)
    ev = vlib.read_ndjson(trace)
    kinds = [e["ev"] for e in ev if e["ev"] in ABNORMAL]
    ops = sum(1 for e in ev if e["ev"] == "ret_ok" and "h" in e)
    print("abnormal events recorded:", kinds, "| successful instantiations:", ops, "|", st)
    ok = kinds == ["panic", "crash", "crash", "crash", "timeout"] or kinds == ["panic", "crash", "crash", "panic", "timeout"]
    ok &= ops == 2 * (len(faults) + 1)          # every good job ran on both contexts, also after each fault
    seg_dir = os.path.join(BEH, "C09-selftest-segments")
    shutil.rmtree(seg_dir, ignore_errors=True)
    os.makedirs(seg_dir)
    shutil.copy(trace, os.path.join(seg_dir, "seg0000-0.ndjson"))
    rej, accepted, _, _ = validate_segment(0, os.path.join(seg_dir, "seg0000-0.ndjson"), len(ev))
    print("TLC rejected:", [(r["event"]["ev"], r["call"]["api"]) for r in rej], "| then accepted", accepted, "events")
    ok &= [r["event"]["ev"] for r in rej] == kinds and accepted == len(ev) - 2 * len(kinds)
    ok &= binding_selftest([e for e in ev if e.get("id") not in {x["id"] for x in ev if x["ev"] in ABNORMAL}] * 4)
    print("selftest", "passed" if ok else "FAILED")
    return 0 if ok else 2
