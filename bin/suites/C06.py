"""C06 (partial) — ellipsoid geometry: conversions, geodesics, latitudes and constants are coherent.

spec/Ellipsoid.tla holds the discrete content of the property: the built-in ellipsoid table as PUBLISHED constants
(exact decimals as integers; alternatives where PROJ and EPSG publish different numbers), and the catalogue of
identities of the statement - per identity the ellipsoids, the integer lattice of arguments, the accuracy class and the
special points (poles, equator, height zero) the lattice must contain.  TLC (MC_C06_q / MC_C06_t) checks the catalogue
(no duplicate names, entries well formed and inside f <= 1/150, alternatives of one entry agree, the comparison class
cannot confuse two published flattenings, classes are those of the statement, every lattice inside the domain and
containing its special points, obligation count = the product) and enumerates every obligation
identity x ellipsoid x lattice point; harness/src/bin/gvh_ellps.rs evaluates each on the real library (Ellipsoid /
EllipsoidBase / GeoCart / Geodesics / Latitudes / Meridians and the cart / latitude / geodesic / curvature operators
through Context::apply) against references computed independently from (a, f) alone."""
import json, os, subprocess
import vlib

PROP = "C06"
BIN = "gvh_ellps"
LATTICE_FAMS = ("cart", "geod", "lat", "mer", "curv")


def _paths(tag):
    d = os.path.join(vlib.WORK, "beh")
    os.makedirs(d, exist_ok=True)
    return (os.path.join(d, tag + ".ndjson"), os.path.join(d, tag + ".out.ndjson"), os.path.join(d, tag + ".progress"))


def evaluate(tag, recs, timeout):
    """Run the harness on obligation records.  Returns (rows, crash) - crash is None, or a dict describing a hang or
    an abnormal end of the process while it evaluated the code under test (data, not a tool error)."""
    inp, outp, prog = _paths(tag)
    vlib.write_ndjson(inp, recs)
    for f in (outp, prog):
        if os.path.exists(f):
            os.remove(f)
    exe = vlib.build_harness(BIN)
    crash = None
    try:
        p = subprocess.run([exe, "eval", inp, outp, prog], cwd=vlib.VERIF, timeout=timeout, stdout=subprocess.PIPE, stderr=subprocess.STDOUT, text=True)
        if p.returncode not in (0, 1):
            if p.returncode < 0 or p.returncode in (134, 139):      # killed by a signal / abort: the library brought the process down
                crash = {"what": "crash", "rc": p.returncode, "out": p.stdout[-1500:]}
            else:
                raise vlib.ToolError("gvh_ellps eval failed (%d):\n%s" % (p.returncode, p.stdout[-4000:]))
    except subprocess.TimeoutExpired:
        crash = {"what": "hang", "timeout_s": timeout}
    if crash is not None:
        try:
            with open(prog) as f:
                crash["at"] = json.load(f)
        except Exception:
            raise vlib.ToolError("gvh_ellps ended abnormally before evaluating anything: %s" % crash)
    rows = vlib.read_ndjson(outp) if os.path.exists(outp) else []
    return rows, crash


def code_names():
    rc, out = vlib.gvh(["names"], bin=BIN)
    return json.loads(out.strip().splitlines()[-1])


def sig_of(g, many=()):
    """One defect, one signature: the two routes (trait, operator) of an identity are one implementation, and the fixed
    points of a latitude are points of its closed form; an ellipsoid that cannot be instantiated is one finding whatever
    the identity; a geodesic that does not converge is one finding whatever the identity; a table identity that fails on
    many entries alike is a defect of the code, not of the entries."""
    idn = g["id"]
    what = g["what"].split("@")[0]
    if what.startswith("named_"):
        return "Ellipsoid::named|%s|%s" % (",".join(g["ellps"][:8]), what)
    if idn.startswith("geod.") and what == "no_convergence":
        return "geod|%s|%s" % (g["ecls"], what)
    if idn.startswith("table.") and (idn, what) in many:
        return "%s|many|%s" % (idn, what)
    if idn.startswith("lat.") and idn.endswith(".fix"):
        idn = idn[:-4] + ".def"
        what = "closed_form"
    if what == "closed_form_inverse":
        what = "closed_form"
    return "%s|%s|%s" % (idn, g["ecls"], what)


def known(g, sig, kfs):
    """A failing group is a known finding iff an entry of known_findings.json (property C06) lists its signature and the
    worst deviation stays within what the entry describes (a larger or different failure is still reported)."""
    for k in kfs:
        s = k.get("signature", {})
        if sig in s.get("signatures", []) and g["worst"] <= s.get("max_value", float("inf")):
            return k
    return None


def tolerance_table(rows):
    tab = {}
    for m in rows:
        if not m.get("measure"):
            continue
        t = tab.setdefault(m["id"], {"n": 0, "fails": 0, "worst_ratio": 0.0})
        t["n"] += m["n"]
        t["fails"] += m["fails"]
        if m.get("ratio", 0) >= t["worst_ratio"]:
            t.update({"worst_ratio": m.get("ratio", 0), "worst_value": m["worst"], "allowed": m["tol"], "check": m["what"], "at": m["at"]})
    return tab


def run(tier, seed):
    res = vlib.Result(PROP, tier, seed, "model_checking")
    vlib.build_harness(BIN)
    q = tier == "quick"
    r = vlib.tlc_must_pass(vlib.tlc("MC_C06", "MC_C06_q" if q else "MC_C06_t", workers=4, timeout=300 if q else 1500, xmx="6g", seed=seed))
    vlib.require_coverage(r, ["Pick"])
    res.add_tlc(r)
    recs = r["records"].get("OBL", [])
    if not recs:
        raise vlib.ToolError("MC_C06 emitted no obligations")
    enumerated = r["distinct"] - len(recs)
    if sum(len(x["pts"]) for x in recs) != enumerated:
        raise vlib.ToolError("exported lattices (%d points) differ from the obligations TLC enumerated (%d)" % (sum(len(x["pts"]) for x in recs), enumerated))
    fams = set(x["fam"] for x in recs)
    for f in ("table", "shape") + LATTICE_FAMS:
        if f not in fams:
            raise vlib.ToolError("vacuous: no obligation of family " + f)

    # drift between the specification's table and the code's: reported, never judged
    names = set(code_names())
    spec_names = set(x["ellps"] for x in recs if x["src"] == "table")
    for n in sorted(names - spec_names):
        res.uncovered.append("ellipsoid in the code's table without published constants in spec/Ellipsoid.tla (not compared): " + n)
    gone = sorted(spec_names - names)
    for n in gone:
        res.uncovered.append("published ellipsoid of spec/Ellipsoid.tla that the code's table does not (any longer) contain - its obligations are skipped: " + n)
    todo = [x for x in recs if not (x["src"] == "table" and x["ellps"] in gone)]
    expected = sum(len(x["pts"]) for x in todo)

    rows, crash = evaluate(PROP, todo, 600 if q else 2400)
    summary = [x for x in rows if x.get("summary")]
    if crash is None:
        if not summary:
            raise vlib.ToolError("gvh_ellps wrote no summary")
        summary = summary[0]
        if summary["obligations"] != expected or summary["configurations"] != len(todo):
            raise vlib.ToolError("obligations evaluated (%d in %d configurations) differ from those enumerated (%d in %d)"
                                 % (summary["obligations"], summary["configurations"], expected, len(todo)))
    else:
        at = crash["at"]
        rec = next((x for x in todo if x["id"] == at["id"] and x["ellps"] == at["ellps"]), None)
        res.add_violation({"suite": "ellps", "what": crash["what"], "def": "%s on ellps=%s" % (at["id"], at["ellps"]), "record": rec,
                           "expected": "the obligations of this configuration evaluate and return", "observed": crash,
                           "signature": "%s|%s|%s" % (at["id"], at["ellps"], crash["what"])})
        summary = {"obligations": 0, "failing": 0, "evaluations": 0, "families": {}, "identities": {}}

    tab = tolerance_table(rows)
    byfam = summary.get("families", {})
    exact = sum(byfam.get(f, {}).get("obligations", 0) - byfam.get(f, {}).get("failing", 0) for f in ("table", "shape"))
    res.behaviours_replayed = exact
    res.assumption_evaluations = sum(byfam.get(f, {}).get("obligations", 0) for f in LATTICE_FAMS)
    res.evaluations = summary.get("evaluations", 0)
    # trivial: an auxiliary latitude or a shape identity on a sphere (every latitude is the identity, every parameter 0 or a)
    res.distinct_nontrivial = sum(1 for x in todo if not (x["sphere"] and x["fam"] in ("lat", "shape")))
    res.exhaustive = True            # every obligation TLC enumerated is evaluated; the table and the shape identities cover all 47 entries in both tiers
    res.extra["obligations"] = summary.get("obligations", 0)
    res.extra["failing"] = summary.get("failing", 0)
    res.extra["configurations"] = len(todo)
    res.extra["families"] = byfam
    res.extra["ellipsoids"] = {"table_in_code": len(names), "table_in_spec": len(spec_names),
                               "lattice": sorted(set(x["ellps"] for x in todo if x["fam"] in LATTICE_FAMS))}
    res.extra["tolerances"] = tab
    res.rule = ("TLC enumerates identity x ellipsoid x lattice point over spec/Ellipsoid.tla: table (every published entry: Ellipsoid::named, "
                "TriaxialEllipsoid::named, the operators' ellps=) and the 13 defining identities of the shape parameters on all 47 entries + 5 synthetic "
                "(a, 1/f) up to f = 1/150 in both tiers; cart (operator and closed form: round trip, forward definition, ellipsoid equation at h = 0), "
                "geodesics (direct/inverse consistent, end points exchanged, meridian arcs incl. over a pole, equatorial arcs, great circles on spheres, "
                "operator = trait), seven latitudes x (odd, fixed points, strictly increasing, round trip, closed form) by trait and by operator, "
                "meridian distance <-> latitude, curvatures - on " + ("GRS80, intl, bessel, mprts, sphere, unitsphere and (6378137, 1/150)" if q else "all 47 entries + 5 synthetic")
                + ". behaviours_replayed = table/shape obligations that held; assumption_evaluations = lattice obligations evaluated numerically; "
                "non-trivial = (identity, ellipsoid) configurations other than a latitude or shape identity on a sphere.")
    bykind = {}
    for x in sorted(todo, key=lambda x: (x["ellps"] != "GRS80", x["id"])):
        bykind.setdefault(x["fam"], {k: (x[k] if k != "pts" else sorted(x["pts"])[:3]) for k in ("id", "ellps", "cls", "tol", "unit", "pubs", "pts")})
    res.samples = list(bykind.values())[:6]
    res.assumptions = [
        "published constants: transcribed from PROJ's ellipsoid list (`proj -le`: a and rf, or a and b where the list defines b), with the EPSG definition "
        "as an alternative where it differs (airy, mod_airy, plessis, PZ90); an entry is right if a is within 1e-9 relative and the shape agrees with "
        "one alternative: 1/f within 1e-9 relative, or a(1-f) within min(1e-9 b, half a unit of b's last published digit), or f = 0 (<= 1e-9) for the spheres; "
        "`unitsphere` is not a published figure: its constants are those of its name (a = 1, f = 0)",
        "classes of the statement: cart operator 1 um, closed form 1 cm (heights -10..100 km; measured on the ground with M+h, (N+h)cos(lat)); latitudes 1e-12 rad for the "
        "round trip and - the statement naming no other number - for oddness, fixed points and the closed forms",
        "classes chosen by measurement (>= 100 x the worst case on the unchanged tree, never below 1e-11 relative; worst cases in coverage.tolerances): defining identities, "
        "curvatures, ellipsoid equation 1e-11 relative (dimensionless shape parameters + 1e-13 absolute: a ratio of axes carries their rounding; measured <= 1.2e-14); "
        "geodesics against each other / great circles 1 mm x a/6378137 m (measured 6.4 um = the iterations' stopping criterion); geodesics against the meridian-arc integral and "
        "a*dlon 1 cm x a/6378137 m (measured 0.07 mm at f = 1/150, 0.014 mm on mprts: truncation of Vincenty's series); meridian distance <-> latitude and against the integral 10 cm x a/6378137 m "
        "(measured 0.9 mm at f = 1/150, 0.3 mm on mprts: Bowring's series)",
        "azimuth deviations are weighed by a*|sin(arc)|, the displacement they cause at the far end; the azimuth at a destination that is a pole is not compared with the great circle",
        "geodesics: arcs up to 170 degrees of the semi-major axis (18 924 km on GRS80; the statement: up to 19 000 km, outside the near-antipodal zone), start latitudes up to 89 "
        "degrees (no azimuth at a pole), meridian pairs up to 170 degrees apart on one meridian or over a pole, equatorial pairs up to 170 degrees",
        "references are computed in the harness from (a, f) as the library reports them: closed forms of geocentric/reduced/conformal/authalic/isometric latitudes, 48-point "
        "Gauss-Legendre quadrature of the meridian arc (rectifying latitude, meridian distance, geodesics on meridians), vector algebra for great circles",
        "not compared: normal gravity (gravity.rs: formulas without an identity in the statement), rectifying_radius_bowring (documented as a truncated variant), heights above "
        "100 km (C01 cart_high), the near-antipodal zone, ellipsoids with f > 1/150 or prolate, iteration counts returned by the geodesic routines, success counts of operators (C10)",
    ]

    # failing groups -> violations (one per signature) or known findings
    kfs = vlib.known_findings(PROP)
    merged = {}
    per_table = {}
    for g in rows:
        if g.get("group") and g["id"].startswith("table."):
            per_table[(g["id"], g["what"].split("@")[0])] = per_table.get((g["id"], g["what"].split("@")[0]), 0) + 1
    many = set(k for k, n in per_table.items() if n >= 4)
    for g in rows:
        if not g.get("group"):
            continue
        sig = sig_of(g, many)
        m = merged.setdefault(sig, {"failing": 0, "worst": -1.0, "sample": None, "ref": None, "ellps": set(), "ids": set()})
        m["failing"] += g["failing"]
        m["ellps"].update(g["ellps"])
        m["ids"].add(g["id"] + ":" + g["what"])
        if m["sample"] is None or g["worst"] > m["worst"]:
            m["sample"] = g["sample"]
        m["worst"] = max(m["worst"], g["worst"])
        if g.get("ref_sample") and (m["ref"] is None or g["id"].endswith(".def")):
            m["ref"] = g["ref_sample"]
    for sig, m in sorted(merged.items()):
        k = known(m, sig, kfs)
        if k:
            res.add_known(k["id"], k["what"])
            continue
        # the reproduction: the worst case on GRS80 where the group has one, else the worst case
        smp = m["ref"] or m["sample"]
        wst = m["sample"]
        res.add_violation({"suite": "ellps", "what": smp["what"], "worst": {"ellps": wst["ellps"], "pt": wst["pt"], "deviation": wst["value"]}, "def": "%s on ellps=%s at %s" % (smp["id"], smp["ellps"], smp["pt"]),
                           "identity": smp["id"], "ellipsoids": sorted(m["ellps"])[:60], "failing": m["failing"], "checks": sorted(m["ids"]),
                           "expected": "deviation <= %g (%s, class %s)" % (smp["tol"], smp["unit"], smp["cls"]),
                           "observed": {"deviation": smp["value"], "detail": smp["detail"]}, "record": smp["record"], "signature": sig})
    return res.finish()


def replay(path):
    vlib.build_harness(BIN)
    with open(path) as f:
        v = json.load(f)
    rec = v.get("record")
    if not rec:
        print("replay file carries no obligation record")
        return 2
    rows, crash = evaluate("replay-" + PROP, [rec], 300)
    fails = [x for x in rows if not (x.get("group") or x.get("measure") or x.get("summary"))]
    if crash or fails:
        print("VIOLATION property=%s replay=%s" % (PROP, path))
        print(json.dumps(crash or {k: fails[0][k] for k in ("id", "ellps", "pt", "what", "value", "tol", "detail")})[:2000])
        return 1
    print("replay passes on the current tree")
    return 0


def selftest(seed):
    """The binding binds: a published constant replaced by its neighbour's (GRS80 given WGS84's 1/f, 4.9e-9 away) and a
    lattice identity given an impossible class must both fail; the unaltered records must pass."""
    vlib.build_harness(BIN)
    r = vlib.tlc_must_pass(vlib.tlc("MC_C06", "MC_C06_q", workers=4, timeout=300, xmx="6g", seed=seed))
    recs = r["records"]["OBL"]
    grs = next(x for x in recs if x["id"] == "table.named" and x["ellps"] == "GRS80")
    geo = next(x for x in recs if x["id"] == "geod.meridian" and x["ellps"] == "GRS80")
    rows, _ = evaluate(PROP + "-selftest", [grs, geo], 300)
    base = [x for x in rows if x.get("summary")][0]["failing"]
    bad1 = dict(grs, pubs=[{"k": "rf", "i": 298, "f": 257223563, "d": 9}])
    bad2 = dict(geo, tol=1, unit="nm")            # 1 nm: below what Vincenty's series deliver
    rows, _ = evaluate(PROP + "-selftest", [bad1, bad2], 300)
    s = [x for x in rows if x.get("summary")][0]
    hit = set(x["id"] for x in rows if x.get("group"))
    ok = base == 0 and hit == {"table.named", "geod.meridian"}
    print("selftest:", "corruptions detected" if ok else "corruption NOT detected (base failing %d, groups %s, failing %d)" % (base, sorted(hit), s["failing"]))
    return 0 if ok else 2
