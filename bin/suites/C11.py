"""C11 — adapt, axisswap and unitconvert do exactly the declared reordering and scaling."""
import json, os
import vlib

PROP = "C11"


def run(tier, seed):
    res = vlib.Result(PROP, tier, seed, "model_checking")
    vlib.build_harness()
    recs = []
    q = tier == "quick"
    r = vlib.tlc_must_pass(vlib.tlc("MC_C11", "MC_C11_q" if q else "MC_C11_t", workers=12 if q else 14, timeout=3400, xmx="16g"))
    vlib.require_coverage(r, ["Pick"])
    res.add_tlc(r)
    pairs = 0
    for x in r["records"].get("ADAPT", []):
        x["t"] = "adapt"
        pairs += len(x["rows"])
        recs.append(x)
    r2 = vlib.tlc_must_pass(vlib.tlc("MC_C11_swap", "MC_C11_swap_q" if q else "MC_C11_swap_t", workers=8, timeout=1700))
    res.add_tlc(r2)
    nvalid = 0
    for kind, t in (("SWAP", "swap"), ("WORD", "word"), ("UNIT", "unit")):
        for x in r2["records"].get(kind, []):
            x["t"] = t
            recs.append(x)
            if t == "swap" and x["valid"]:
                nvalid += 1
    if nvalid != 442:
        raise vlib.ToolError("specification enumerates %d valid axisswap orders, expected 442" % nvalid)
    inp = os.path.join(vlib.WORK, "beh", "C11.ndjson")
    outp = os.path.join(vlib.WORK, "beh", "C11.out.ndjson")
    vlib.write_ndjson(inp, recs)
    rc, out = vlib.gvh(["replay", "tables", inp, outp], timeout=3400)
    rows = vlib.read_ndjson(outp)
    summary = [x for x in rows if x.get("summary")][0]
    fails = [x for x in rows if not x.get("summary") and x.get("what") != "more"]
    res.behaviours_replayed = summary["cases"] - len(fails)
    res.evaluations = summary["evaluations"]
    res.distinct_nontrivial = summary["nontrivial"]
    res.uncovered = ["unit name in the code's table unknown to the specification: " + u for u in summary["uncovered_units"]]
    res.extra["adapt_pairs"] = pairs
    res.extra["duplicate_unit_names_in_code"] = summary["duplicate_unit_names_in_code"]
    res.exhaustive = True
    res.rule = ("adapt: TLC enumerates from x to descriptor pairs (quick: 512 x 640: every axis order and sign combination without suffix plus the "
                "horizontal-first forms with _deg / _deg,_gon; thorough: all 1920 x 1920) and derives the mapping out[i] = sign * unit * in[j]; "
                "every pair is instantiated and applied in both directions to a probe tuple of four unrelated values "
                "(exact where no angular conversion is involved, 4 ulp otherwise; where the documentation leaves the position "
                "of the angular unit open - horizontal axes not in positions 1-2 - only source element, sign and 'some ratio of "
                "declared unit factors' are compared). All 4096 four-letter words x 5 valid and 6 invalid suffixes for "
                "acceptance; every axisswap index list up to length 4 (quick) / 5 (thorough) over -4..4 / -5..5 (442 valid); "
                "all 21 x 21 linear and 3 x 3 angular unit pairs for xy and z. Non-trivial = cases whose expected mapping is "
                "not the identity, or that must be rejected.")
    res.samples = [recs[0]["from"] + " -> " + recs[0]["rows"][1], recs[-1], recs[len(recs) // 2]]
    res.assumptions = ["unit factors are those of PROJ's units.c as transcribed in spec/Adapt.tla",
                       "angular unit suffix applies to descriptor positions 1-2 (compared strictly only when both horizontal axes are there)"]
    seen = set()
    for f in fails:
        sig = "%s|%s|%s" % (f.get("suite"), f.get("what"), f.get("def", f.get("a")))
        res.add_violation({"suite": f.get("suite"), "what": f.get("what"), "def": f.get("def", f.get("a")), "detail": f, "signature": sig})
    return res.finish()


def replay(path):
    vlib.build_harness()
    v = json.load(open(path))
    d = v["detail"]
    # re-run the single case through the tables replayer
    import re
    print("replay of table cases: re-run bin/check C11; case was:", json.dumps(d)[:400])
    return run("quick", 1)
