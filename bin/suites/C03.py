"""C03 — pipelines compose steps in order and invert by reversing inverted steps."""
import json, os, collections
import vlib, scriptlib, pipelib

PROP = "C03"


def signature(m):
    b = m["behaviour"]
    f = m["fails"][0]
    return "%s|%s|%s" % (b.get("kind"), f["what"], b["calls"][0]["def"])


def run(tier, seed):
    res = vlib.Result(PROP, tier, seed, "model_checking")
    vlib.build_harness()
    cfgs = ["MC_C03_len2"] if tier == "quick" else ["MC_C03_len2", "MC_C03_len3"]
    behaviours = []
    nontrivial = set()
    for cfg in cfgs:
        r = vlib.tlc_must_pass(vlib.tlc("MC_C03", cfg, workers=8 if tier == "quick" else 14, timeout=3400, xmx="12g"))
        vlib.require_coverage(r, ["InstFail", "DispatchNext", "StepSkip", "StepLeaf", "StepEnter", "Return"])
        res.add_tlc(r)
        recs = r["records"].get("REPLAY", [])
        for x in recs:
            behaviours += pipelib.to_behaviours(len(behaviours), x)
            if x["ok"] and any(a["data"] != x["data"] or a["count"] != len(x["data"]) for a in x["apps"]):
                nontrivial.add(x["def"])
    summary, mism = scriptlib.replay_scripts(PROP, behaviours)
    res.behaviours_replayed = summary["behaviours"] - len(mism)
    res.evaluations = summary["evaluations"]
    res.distinct_nontrivial = len(nontrivial)
    res.rule = ("TLC enumerates every definition of up to N steps over 5 probe operators and 6 macros (bodies: single step, "
                "pipeline, pipeline ending in a directional step, pipeline with inverted and directional steps, nested inverted "
                "macro, pipeline containing a one-way step) x every inv/omit_fwd/omit_inv combination per step x 5 modifier "
                "layouts (suffix, prefix, =true, between name and arguments, </> sugar); each behaviour is replayed into the "
                "real library: exact count and operands in both directions, bit-identity with the stand-alone execution of the "
                "plan, and the same with built-in operators substituted for the probes. Non-trivial = distinct definition "
                "texts whose expected result differs from the input or whose count is below the set size.")
    res.samples = [b for b in behaviours[:: max(1, len(behaviours) // 3)]][:3]
    res.exhaustive = True
    res.assumptions = ["probe operators are defined by the harness", "a lone top-level step carries no omit_* (no enclosing pipeline)"]
    for m in mism:
        b = m["behaviour"]
        res.add_violation({"suite": "pipeline", "behaviour": b, "fails": m["fails"], "def": b["calls"][0]["def"],
                           "what": m["fails"][0]["what"], "signature": signature(m)})
    return res.finish()


def replay(path):
    vlib.build_harness()
    return scriptlib.replay_one(path, PROP)
