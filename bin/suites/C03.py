"""C03 — pipelines compose steps in order and invert by reversing inverted steps."""
import json, os, re, collections
import vlib, scriptlib, pipelib, rtlib

PROP = "C03"


def workers(n):
    """TLC workers: n, unless VERIF_TLC_WORKERS caps it (shared machine)"""
    return max(1, min(n, int(os.environ.get("VERIF_TLC_WORKERS", n))))


def signature(m):
    b = m["behaviour"]
    f = m["fails"][0]
    # layout-independent: the shape of the definition (names and modifiers per step) and of the macros it uses
    d = b["calls"][0]["def"]
    used = sorted(n + ":=" + pipelib.canonical(t) + ("" if re.search(r"[|<>]", t) else " (no separator)")
                  for n, t in (b.get("resources") or {}).items() if re.search(r"(^|[\s|<>])" + re.escape(n) + r"($|[\s|<>])", d))
    return "%s|%s|%s|%s" % (b.get("kind"), f["what"], pipelib.canonical(d), ";".join(used))


def steps_trace(res, recs, n):
    step = max(1, len(recs) // n)
    sample = recs[::step]
    inp = os.path.join(vlib.WORK, "beh", "C03-steps.in.ndjson")
    out = os.path.join(vlib.WORK, "beh", "C03-steps.ndjson")
    vlib.write_ndjson(inp, sample)
    vlib.gvh(["record", "steps", inp, out])
    evs = vlib.read_ndjson(out)
    for e in evs:
        if e["ev"] in ("panic", "opfail"):
            res.add_violation({"suite": "steps-trace", "what": e["ev"], "def": e.get("def"), "detail": e, "signature": "steps|" + e["ev"]})
    info = vlib.tlc_trace("Trace_Pipeline", out, timeout=2400)
    res.states += info["states"]
    res.transitions += info["generated"]
    res.trace_events += info["matched"] or 0
    if info["accepted"]:
        res.trace_segments_accepted += sum(1 for e in evs if e["ev"] == "start")
    else:
        k = info["matched"] or 0
        starts = [i for i, e in enumerate(evs[:k + 1]) if e["ev"] == "start"]
        seg = evs[starts[-1]: k + 1] if starts else evs[: k + 1]
        res.add_violation({"suite": "steps-trace", "what": "step trace rejected by Trace_Pipeline", "def": seg[0].get("def") if seg else None,
                           "first_unmatched_event": info["next"], "segment": seg, "signature": "steps|" + str(seg[0].get("def") if seg else "")})
    # the binding binds: a trace with one altered per-step count must be rejected
    i = next(i for i, e in enumerate(evs) if e["ev"] == "step" and not e["skipped"])
    bad = [dict(e) for e in evs[: i + 40]]
    bad[i]["count"] = bad[i]["count"] + 1
    pth = out + ".corrupt"
    vlib.write_ndjson(pth, bad)
    if vlib.tlc_trace("Trace_Pipeline", pth, tag="Trace_Pipeline-c")["accepted"]:
        raise vlib.ToolError("step-trace validation is vacuous: a corrupted trace was accepted")


def run(tier, seed):
    res = vlib.Result(PROP, tier, seed, "model_checking")
    vlib.build_harness()
    cfgs = ["MC_C03_len2", "MC_C03_corner", "MC_C03_three"] if tier == "quick" else ["MC_C03_len2", "MC_C03_corner", "MC_C03_three", "MC_C03_long5", "MC_C03_len3"]
    behaviours = []
    nontrivial = set()
    for cfg in cfgs:
        r = vlib.tlc_must_pass(vlib.tlc("MC_C03", cfg, workers=workers(8 if tier == "quick" else 14), timeout=3400, xmx="12g"))
        vlib.require_coverage(r, (["InstFail"] if cfg not in ("MC_C03_three", "MC_C03_long5") else []) + ["DispatchNext", "StepSkip", "StepLeaf", "StepEnter", "Return"])
        res.add_tlc(r)
        recs = r["records"].get("REPLAY", [])
        if cfg == "MC_C03_len2":
            specrecs = [x for x in recs if x["ok"]]
        for x in recs:
            behaviours += pipelib.to_behaviours(len(behaviours), x)
            if x["ok"] and any(a["data"] != x["data"] or a["count"] != len(x["data"]) for a in x["apps"]):
                nontrivial.add(x["def"])
    # ---- internal conformance: the step events of the real pipeline operator (hook) are a behaviour
    # ---- of the small-step machine (per-step counts at every nesting level, skipped steps)
    steps_trace(res, specrecs, 6000 if tier == "quick" else len(specrecs))
    # ---- the data-free protocol (spec/Runtime.tla): model checked, then the repository's own test suite and a
    # ---- spread of the behaviours above, recorded through the hooks, validated as behaviours of it
    rtlib.check_model(res, tier)
    rtlib.check_repo_tests(res)
    rtlib.check_harness(res, PROP, behaviours, 1500 if tier == "quick" else 20000)
    summary, mism = scriptlib.replay_scripts(PROP, behaviours)
    res.behaviours_replayed = summary["behaviours"] - len(mism)
    res.evaluations = summary["evaluations"]
    res.distinct_nontrivial = len(nontrivial)
    res.rule = ("TLC enumerates every definition of up to N steps over 5 probe operators and 7 macros (bodies: single step, "
                "pipeline, pipeline ending in a directional step, pipeline with inverted and directional steps, nested inverted "
                "macro, a single directional step, pipeline containing a one-way step) x every inv/omit_fwd/omit_inv combination "
                "per step x 5 modifier layouts (suffix, prefix, =true, between name and arguments, </> sugar); corners "
                "(MC_C03_corner, 6 layouts incl. inv given twice): a one-way operator whose gamut does not list inv, bodies of one "
                "directional step written without a separator, four levels of nesting with modifiers at every level, both "
                "omissions on one step, each alone, next to and between partner steps; each behaviour is replayed into the "
                "real library: exact count and operands in both directions, bit-identity with the stand-alone execution of the "
                "plan, and the same with built-in operators substituted for the probes (inv on a one-way built-in must be refused "
                "like inv on a one-way probe). Non-trivial = distinct definition "
                "texts whose expected result differs from the input or whose count is below the set size.")
    res.samples = [b for b in behaviours[:: max(1, len(behaviours) // 3)]][:3]
    res.exhaustive = True
    res.assumptions = ["probe operators are defined by the harness", "a lone top-level step carries no omit_* (no enclosing pipeline)",
                       "a macro body of one directional step written without a separator (m:o := a omit_fwd) is judged only where its "
                       "invocation is a step of a pipeline (Pipeline.tla, Undecided); there it means the same as `a omit_fwd |`",
                       "inv on a step without an inverse is refused at instantiation (the outcome the library documents: "
                       "Error::NonInvertible); silently ignoring the modifier is a violation"]
    for m in pipelib.ordered(mism, signature):
        b = m["behaviour"]
        res.add_violation({"suite": "pipeline", "behaviour": b, "fails": m["fails"], "def": b["calls"][0]["def"],
                           "what": m["fails"][0]["what"], "signature": signature(m)})
    return res.finish()


def replay(path):
    vlib.build_harness()
    return scriptlib.replay_one(path, PROP)
