"""C07 (partial) — Helmert: parameter assembly, conventions, epochs.

spec/Helmert.tla derives, for every definition core and coordinate set it enumerates,
 * the exact result of the translation/rate part (integers),
 * integer linear forms T, S, K(conv, r)*x for the small-angle similarity,
 * classes of definitions that must behave identically (alias spellings, t_obs vs per-tuple
   epochs, a dynamic definition at epoch t vs the static one with P(t), position_vector r vs
   coordinate_frame -r, forward of one convention vs inverse of the other in exact mode).
This driver replays all of that into the real operator."""
import json, math, os
import vlib, scriptlib

PROP = "C07"
ARCSEC = math.pi / 648000.0
# algebraic relations: 1e-9 m is below one ulp at 10^7 m, so a few ulps of the magnitudes involved are admitted
LIN = {"tol": 1e-9, "ulps": 8, "mag": 6.4e6}


def fl(v):
    return "NaN" if v == "NaN" else float(v)


def fdata(d):
    return [[fl(x) for x in t] for t in d]


def isnan(v):
    return v == "NaN"


def form_fwd(x, f):
    """T + (1 + S*1e-6) * (x + arcsec * Kx), element-wise; NaN-absorbing"""
    out = []
    for i in range(3):
        vals = [x[i], f["T"][i], f["S"], f["Kx"][i]]
        if any(isnan(v) for v in vals):
            out.append("NaN")
        else:
            out.append(f["T"][i] + (1.0 + f["S"] * 1e-6) * (x[i] + ARCSEC * f["Kx"][i]))
    return out


def form_inv_unrotated(x, f):
    out = []
    for i in range(3):
        vals = [x[i], f["T"][i], f["S"]]
        if any(isnan(v) for v in vals):
            out.append("NaN")
        else:
            out.append((x[i] - f["T"][i]) / (1.0 + f["S"] * 1e-6))
    return out


def mixed_data(positions, epochs):
    """positions with epochs repeated and out of order: e1, e2, e1, e0"""
    es = sorted(epochs)
    pick = [es[1 % len(es)], es[2 % len(es)], es[1 % len(es)], es[0]]
    return [[float(p[0]), float(p[1]), float(p[2]), float(pick[k % 4])] for k, p in enumerate(positions)]


def build(defs, runs, positions):
    """-> (script behaviours, rel cases, nontrivial count)"""
    beh, cases = [], []
    nontrivial = 0

    def case(c):
        c["id"] = len(cases)
        cases.append(c)

    # ---- runs: exact replay of the translation/rate part, linear forms otherwise
    for n, r in enumerate(runs):
        text = r["def"] if n % 2 == 0 else r["proj"]
        data = fdata(r["data"])
        hasnan = any(isnan(t[3]) for t in r["data"])
        if r["pure"]:
            if r["fwd"] != r["data"]:
                nontrivial += 1
            cnt = None if hasnan else len(data)
            beh.append({"id": len(beh), "ctx": "minimal", "kind": "exact", "spec": {"def": r["def"], "devfwd": r["devfwd"]},
                        "calls": [{"do": "op", "def": text, "as": "h", "ok": True},
                                  {"do": "apply", "h": "h", "dir": "F", "data": data, "expect": {"count": cnt, "data": fdata(r["fwd"])}},
                                  {"do": "apply", "h": "h", "dir": "I", "expect": {"count": cnt, "data": fdata(r["inv"])}}]})
        else:
            nontrivial += 1
            exp_f = [form_fwd(t, f) + [fl(t[3])] for t, f in zip(r["data"], r["fwd"])]
            case({"k": "approx", "tag": "linear-form-fwd", "def": text, "dir": "F", "data": data, "expect": exp_f,
                  "count": None if hasnan else len(data),
                  "cmp": dict(LIN, modes=["lin", "lin", "lin", "bits"])})
            if r["rotated"]:
                # the small-angle inverse is only claimed to second order: only the fourth element is compared
                exp_i = [[0.0, 0.0, 0.0, fl(t[3])] for t in r["data"]]
                modes = ["skip", "skip", "skip", "bits"]
            else:
                exp_i = [form_inv_unrotated(t, f) + [fl(t[3])] for t, f in zip(r["data"], r["inv"])]
                modes = ["lin", "lin", "lin", "bits"]
            case({"k": "approx", "tag": "linear-form-inv", "def": text, "dir": "I", "data": data, "expect": exp_i,
                  "count": None if hasnan else len(data), "cmp": dict(LIN, modes=modes)})

    # ---- definitions: acceptance, alias classes, assembled parameters, relation classes
    for d in defs:
        texts = [d["def"]] + sorted(t for t in d["texts"] if t != d["def"])
        if not d["ok"]:
            if d["why"] == "convention":
                # documented: convention is mandatory whenever rotations are involved
                beh.append({"id": len(beh), "ctx": "minimal", "kind": "reject",
                            "calls": [{"do": "op", "def": t, "as": "h%d" % j, "ok": False} for j, t in enumerate(texts)]})
                nontrivial += 1
            else:
                # t_epoch missing in a dynamic definition: the documentation does not say it is refused; only 'no panic'
                beh.append({"id": len(beh), "ctx": "minimal", "kind": "open",
                            "calls": [{"do": "op", "def": d["def"], "as": "h", "ok": None}]})
            continue
        mix = mixed_data(positions, d["epochs"])
        pure = d["pure"]
        # alias spellings: one resolved record, hence bit-identical results
        calls = [{"do": "op", "def": t, "as": "h%d" % j, "ok": True} for j, t in enumerate(texts)]
        for j in range(1, len(texts)):
            for dr in ("F", "I"):
                calls.append({"do": "same", "a": [["h0", dr]], "b": [["h%d" % j, dr]], "data": mix})
        if len(texts) > 1:
            nontrivial += len(texts) - 1
        beh.append({"id": len(beh), "ctx": "minimal", "kind": "alias", "calls": calls})
        # assembled parameters, where the operator exposes them
        res, raw = d["res"], d["raw"]
        alt = (lambda a, b: [a] if a == b else [a, b])
        case({"k": "params", "tag": "params", "def": d["def"], "rtol": 1e-12,
              "series": {"T": alt([float(x) for x in res["T"]], [float(x) for x in raw["T"]]),
                         "DT": [[float(x) for x in res["DT"]]],
                         "R": alt([x * ARCSEC for x in res["R"]], [x * ARCSEC for x in raw["R"]]),
                         "DR": [[x * ARCSEC for x in res["DR"]]]},
              "real": {"S": alt(1.0 + res["S"] * 1e-6, 1.0 + raw["S"] * 1e-6), "DS": [res["DS"] * 1e-6]}})
        m3 = (["bits"] * 3 if pure else ["lin"] * 3)
        # the fourth element is never touched (noop: the identity)
        for dr in ("F", "I"):
            case({"k": "rel", "tag": "fourth", "a": {"def": d["def"], "dir": dr}, "b": {"def": "noop", "dir": "F"},
                  "data": mix, "cmp": {"modes": ["skip", "skip", "skip", "bits"], "count": False}})
        # t_obs = tau is every tuple carrying epoch tau (its own fourth element left alone)
        if d["untobs"]:
            tau = float(d["tobs"])
            for dr in ("F", "I"):
                case({"k": "rel", "tag": "tobs", "a": {"def": d["def"], "dir": dr}, "b": {"def": d["untobs"], "dir": dr},
                      "data": mix, "data_b": [t[:3] + [tau] for t in mix], "cmp": dict(LIN, modes=m3 + ["skip"])})
            nontrivial += 1
        # per tuple: the parameters of its own epoch, i.e. the static definition carrying P(t)
        seen = set()
        for e, ftext in sorted(d["frozen"]):
            rows = [k for k, t in enumerate(mix) if t[3] == float(e)]
            if not rows or (ftext, tuple(rows)) in seen:
                continue
            seen.add((ftext, tuple(rows)))
            for dr in ("F", "I"):
                case({"k": "rel", "tag": "own-epoch", "a": {"def": d["def"], "dir": dr}, "b": {"def": ftext, "dir": dr},
                      "data": mix, "cmp": dict(LIN, modes=m3 + ["bits"], rows=rows)})
            nontrivial += 1
        # conventions
        if d["flip"]:
            for dr in ("F", "I"):
                case({"k": "rel", "tag": "convention-sign", "a": {"def": d["def"], "dir": dr}, "b": {"def": d["flip"], "dir": dr},
                      "data": mix, "cmp": dict(LIN, modes=["lin"] * 3 + ["bits"])})
            nontrivial += 1
        if d["transp"]:
            for da, db in (("F", "I"), ("I", "F")):
                case({"k": "rel", "tag": "convention-transpose", "a": {"def": d["def"], "dir": da}, "b": {"def": d["transp"], "dir": db},
                      "data": mix, "cmp": dict(LIN, modes=["lin"] * 3 + ["bits"])})
            nontrivial += 1
    return beh, cases, nontrivial


def iso_cases(defs, cases):
    """exact mode: the linear part is (1 + ppm(t) * 1e-6) times a proper rotation (obligation `iso` of spec/Helmert.tla)"""
    n = 0
    for d in defs:
        if not d.get("iso"):
            continue
        for e, ppm in sorted(d["isoppm"]):
            m = 1.0 + ppm * 1e-6
            for origin in ([3513638.0, 778956.0, 5248216.0, float(e)], [-4052051.0, 4212836.0, -2545106.0, float(e)]):
                for dr in ("F", "I"):
                    cases.append({"id": len(cases), "k": "iso", "tag": "similarity", "def": d["def"], "dir": dr, "origin": origin, "L": 1.0e6,
                                  "scale": m if dr == "F" else 1.0 / m, "tol": 1e-12})
                    n += 1
    for d in defs:
        for e, r in sorted(d.get("second") or []):
            rr = [x * ARCSEC for x in r]
            data = [[3513638.0, 778956.0, 5248216.0, float(e)], [-4052051.0, 4212836.0, -2545106.0, float(e)], [6378137.0, 0.0, 0.0, float(e)]]
            cases.append({"id": len(cases), "k": "second", "tag": "second-order-inverse", "def": d["def"], "data": data,
                          "r2": sum(x * x for x in rr)})
            n += 1
    return n


def molo_cases(res, cases, beh=None):
    """last clause of C07: molodensky against the Helmert path it approximates (spec/MC_C07_molo.tla)"""
    r = vlib.tlc_must_pass(vlib.tlc("MC_C07_molo", "MC_C07_molo", workers=2, timeout=600))
    vlib.require_coverage(r, ["PickCfg", "PickPt"])
    res.add_tlc(r)
    recs = r["records"].get("MOLO", [])
    if len(recs) < 10:
        raise vlib.ToolError("MC_C07_molo exported %d configurations" % len(recs))
    n = 0
    for x in recs:
        data = [[math.radians(p[0]), math.radians(p[1]), float(p[2]), 0.0] for p in x["pts"]]
        cases.append({"id": len(cases), "k": "rel", "tag": "molodensky-" + x["form"], "a": {"def": x["a"], "dir": "F"}, "b": {"def": x["b"], "dir": "F"},
                      "data": data, "cmp": {"modes": ["lin", "lin", "lin", "bits"], "tol": x["class_mm"] / 1000.0, "ulps": 0}})
        n += len(data)
        # every spelling of the ellipsoid pair, and the operator as a macro whose caller gives the ellipsoids, is the same
        # operator as the canonical spelling: bit for bit
        if beh is not None and x["dir"] == "F":
            canon = x["a"].split(" | ")[0]
            others = sorted(t for t in x["spellings"] if t != canon)
            calls = [{"do": "register", "name": "m:molo", "def": x["macro"]["body"]}, {"do": "op", "def": canon, "as": "h0", "ok": True}]
            hs = []
            for j, t in enumerate(others + sorted(x["macro"]["calls"])):
                calls.append({"do": "op", "def": t, "as": "h%d" % (j + 1), "ok": True})
                hs.append("h%d" % (j + 1))
            for h in hs:
                for dr in ("F", "I"):
                    calls.append({"do": "same", "a": [["h0", dr]], "b": [[h, dr]], "data": data[::7]})
            beh.append({"id": len(beh), "ctx": "minimal", "kind": "molodensky-spellings", "calls": calls})
    res.assumption_evaluations += n
    res.extra["molodensky_route_obligations"] = n
    return len(recs)


def run_rel(tag, cases, timeout=1700):
    inp = os.path.join(vlib.WORK, "beh", tag + ".rel.ndjson")
    outp = os.path.join(vlib.WORK, "beh", tag + ".rel.out.ndjson")
    vlib.write_ndjson(inp, cases)
    rc, out = vlib.gvh(["replay", inp, outp], timeout=timeout, bin="gvh_rel")
    rows = vlib.read_ndjson(outp)
    summary = [x for x in rows if x.get("summary")][0]
    fails = [x for x in rows if not x.get("summary") and x.get("what") != "more"]
    return summary, fails


def to_model_units(data):
    """expected data (plain numbers) in the encoding the script replayer reports observations in"""
    return [["NaN" if isnan(x) else int(x) * 1024 for x in t] for t in data]


def run(tier, seed):
    res = vlib.Result(PROP, tier, seed, "model_checking")
    vlib.build_harness()
    vlib.build_harness("gvh_rel")
    q = tier == "quick"
    r = vlib.tlc_must_pass(vlib.tlc("MC_C07", "MC_C07_q" if q else "MC_C07_t", workers=4, timeout=600 if q else 1500, xmx="8g"))
    vlib.require_coverage(r, ["AddTuple", "Start", "StepFwd", "EndFwd", "StepInv", "EndInv"])
    res.add_tlc(r)
    defs = r["records"].get("DEF", [])
    runs = r["records"].get("RUN", [])
    if not defs or not runs:
        raise vlib.ToolError("no DEF/RUN records exported")
    positions = [t[:3] for t in max((x["data"] for x in runs), key=len)]
    while len(positions) < 4:
        positions.append([1, 2, 3])
    beh, cases, nontrivial = build(defs, runs, positions)
    niso = iso_cases(defs, cases)
    if niso == 0:
        raise vlib.ToolError("vacuous: no exact-mode core with rotations")
    nontrivial += niso
    nontrivial += molo_cases(res, cases, beh)
    summary, mism = scriptlib.replay_scripts(PROP, beh)
    rsum, rfails = run_rel(PROP, cases)
    res.behaviours_replayed = (summary["behaviours"] - len(mism)) + (rsum["cases"] - rsum["mismatching"])
    res.evaluations = summary["evaluations"] + rsum["evaluations"]
    res.distinct_nontrivial = nontrivial
    res.exhaustive = True
    res.extra["definition_cores"] = len(defs)
    res.extra["coordinate_set_runs"] = len(runs)
    res.extra["mixed_epoch_runs"] = sum(1 for x in runs if x["dynamic"] and len(set(map(str, (t[3] for t in x["data"])))) > 1)
    res.extra["relation_cases"] = {t: sum(1 for c in cases if c.get("tag") == t) for t in sorted(set(c.get("tag") for c in cases))}
    res.extra["params_compared"] = rsum.get("params_compared", 0)
    res.uncovered = ["assembled parameter not exposed by params(): %s (%d definitions)" % (k, n) for k, n in rsum.get("unexposed", {}).items()]
    res.rule = ("TLC enumerates definition cores (each of translation, velocity, rotation, angular velocity, scale, scale trend "
                "absent or present: all 3/6/7/14-parameter shapes and the mixtures; convention none/position_vector/coordinate_frame; "
                "exact or not; t_epoch and t_obs given or not) and, per accepted core, every coordinate set of up to N tuples over the epoch "
                "pool (mixed, repeated, out of order). Replayed: (a) the translation/rate part exactly (forward, then inverse = identity), "
                "small-angle similarities as T + (1+s)(x + arcsec*K(r)x) with the integers derived by the specification "
                "(1e-9 m + 8 ulp); (b) definitions of one class against each other: alias spellings bit for bit, t_obs vs per-tuple epochs, "
                "dynamic definition on a mixed-epoch set vs the static definition with P(t) per tuple, position_vector r vs coordinate_frame -r, "
                "forward of one convention vs inverse of the other in exact mode (bit for bit where everything is integer, 1e-9 m + 8 ulp otherwise); "
                "(c) the assembled T, DT, R, DR, S, DS through params(); (d) exact mode: a similarity of the scale the specification derives for the tuple's epoch. Non-trivial = coordinate-set runs whose expected result differs "
                "from the input + class pairs of textually different definitions + definitions that must be refused.")
    ex = [b for b in beh if b.get("kind") == "exact" and b["calls"][1]["data"] != b["calls"][1]["expect"]["data"] and len(b["calls"][1]["data"]) > 2]
    res.samples = [{k: b[k] for k in ("kind", "calls")} for b in ex[:: max(1, len(ex) // 2)][:2]]
    for t in ("own-epoch", "tobs", "convention-sign", "linear-form-fwd"):
        cs = [c for c in cases if c.get("tag") == t]
        if cs:
            res.samples.append(cs[len(cs) // 2])
    res.assumptions = [
        "exact mode: the images of an orthogonal frame of 1000 km arms are orthogonal, of equal length (1 + ppm(t) 1e-6) L and right-handed to 1e-12 relative (the trigonometry itself is not computed by the specification)",
        "small-angle mode: inverse after forward leaves at most 1.001 |r(t)|^2 |x| + 1e-8 m (r(t) from the specification)",
        "molodensky against cart | helmert | (cart): the documentation publishes no accuracy figure; classes measured once on the repaired tree over the catalogue of spec/MC_C07_molo.tla (datum changes up to 250 m per axis, |lat| <= 70, heights -100 .. 8848 m; worst 26 mm full / 0.70 m abridged) and doubled: 50 mm and 1.4 m per axis in space",
        "a dynamic definition without t_epoch: the documentation does not say it must be refused; only 'no panic' is required",
        "both spellings of one parameter group in one definition (x=.. together with translation=..) are not generated: precedence is undocumented",
        "unknown convention names are not generated; a convention given without rotations must be accepted and be inert (position_vector only)",
        "a tuple with a NaN epoch under a dynamic definition must come out with NaN x, y, z (no defined parameters); its count is not compared",
        "algebraic relations are compared to 1e-9 m + 8 ulp of the largest magnitude involved (1e-9 m alone is below one ulp at 10^7 m)",
        "params(): a key the operator does not expose is reported as uncovered, not judged; with t_obs both the folded and the unfolded value are accepted",
    ]
    kf = {k.get("deviation"): k for k in vlib.known_findings(PROP)}
    for m in mism:
        b = m["behaviour"]
        f0 = m["fails"][0]
        # known finding: parameters accumulating over epoch changes (deviation switch DevAccumulate of spec/Helmert.tla)
        if b.get("kind") == "exact" and "DevAccumulate" in kf and f0.get("what") == "data" and f0.get("dir") == "F" \
                and f0.get("observed") == to_model_units(b["spec"]["devfwd"]):
            res.add_known(kf["DevAccumulate"]["id"], kf["DevAccumulate"]["what"])
            continue
        d0 = next((c["def"] for c in b["calls"] if c.get("do") == "op"), "")
        res.add_violation({"suite": "helmert-" + b.get("kind", "?"), "behaviour": b, "fails": m["fails"][:5], "def": d0,
                           "what": f0["what"], "expected": f0.get("expected"), "observed": f0.get("observed"),
                           "signature": "%s|%s|%s" % (b.get("kind"), f0["what"], shape_of(d0))})
    for f in rfails:
        c = f["case"]
        d0 = c.get("def") or c["a"]["def"]
        res.add_violation({"suite": "helmert-" + str(c.get("tag")), "case": c, "what": f["what"], "detail": f["detail"], "def": d0,
                           "signature": "%s|%s|%s" % (c.get("tag"), f["what"], shape_of(d0))})
    return res.finish()


def shape_of(text):
    """the keys of a definition without their values: groups violations by class of definition"""
    return " ".join(tok.split("=")[0] for tok in text.split())


def replay(path):
    vlib.build_harness()
    vlib.build_harness("gvh_rel")
    with open(path) as f:
        v = json.load(f)
    if v.get("behaviour"):
        return scriptlib.replay_one(path, PROP)
    summary, fails = run_rel("replay-" + PROP, [v["case"]])
    if fails:
        print("VIOLATION property=%s replay=%s" % (PROP, path))
        print(json.dumps(fails[0]["detail"])[:2000])
        return 1
    print("replay passes on the current tree")
    return 0


def selftest(seed):
    """Corrupt one expected value / one relation and require the replay to notice."""
    vlib.build_harness()
    vlib.build_harness("gvh_rel")
    r = vlib.tlc_must_pass(vlib.tlc("MC_C07", "MC_C07_q", workers=4, timeout=600, xmx="8g"))
    defs, runs = r["records"]["DEF"], r["records"]["RUN"]
    positions = [t[:3] for t in max((x["data"] for x in runs), key=len)] + [[1, 2, 3]]
    beh, cases, _ = build(defs[:200], runs[:400], positions[:4])
    tgt = next(b for b in beh if b.get("kind") == "exact")
    tgt["calls"][1]["expect"]["data"][0][0] += 1.0
    _, mism = scriptlib.replay_scripts(PROP + "-selftest", beh)
    ok1 = any(m["id"] == tgt["id"] for m in mism)
    c = next(c for c in cases if c.get("tag") == "linear-form-fwd")
    c["expect"][0][1] += 1e-6
    _, fails = run_rel(PROP + "-selftest", cases)
    ok2 = any(f["case"]["id"] == c["id"] for f in fails)
    print("selftest: exact corruption %s, linear-form corruption %s" % ("detected" if ok1 else "NOT detected", "detected" if ok2 else "NOT detected"))
    return 0 if ok1 and ok2 and len(mism) == 1 and len(fails) == 1 else 2
