"""C05 — each map projection has the geometry that defines it (claimed partially).

spec/Geometry.tla states the DISCRETE content of the property — per projection family its geometric character
(conformal / conformal within a strip / equal-area / Mercator of the sphere of radius a), its lines and points of
true scale with the scale expected there, its origin conventions, its domain, the parameterisations to cover and the
ellipsoids — and TLC (MC_C05_q / MC_C05_t) checks the catalogue invariants and ENUMERATES every obligation
(family x parameterisation x ellipsoid x lattice point or random cell x kind).  harness/src/bin/gvh_geom.rs evaluates
each obligation on the real operators through Context::apply(Fwd): the Jacobian by 4th-order central differences,
normalised by meridian and parallel radii computed in the harness from (a, f); the meridian arc by Gauss-Legendre
quadrature.  Failures are grouped by (family, shape, kind of obligation, what): one violation each, with the worst
case as minimal reproduction.

run(tier, seed), replay(path), selftest(seed)."""
import collections, json, os, random, re, subprocess
import vlib

PROP = "C05"
BIN = "gvh_geom"
FAMILIES = ("merc", "webmerc", "tmerc", "utm", "btmerc", "butm", "lcc", "omerc", "somerc", "laea")
KINDS = ("conf", "confr", "area", "arear", "scale", "origin", "arc", "sph", "fac")
RF_RE = re.compile(r"\{RF:([0-9]+):([0-9]+)\}")
SHAPE_KEYS = ("fam", "shape", "chr", "tag", "k0", "x0", "y0", "lat0", "polesing", "tol", "obs")


def substitute(text, rng_key, seed):
    """{A} -> a seeded semimajor axis in [6.3e6, 6.4e6] m, {RF:lo:hi} -> a seeded reciprocal flattening in [lo, hi]
    (log-uniform); the same values for every text of one configuration"""
    if "{" not in text:
        return text
    rng = random.Random("%s|%s" % (seed, rng_key))
    a = "%.3f" % rng.uniform(6.3e6, 6.4e6)
    u = rng.random()

    def rf(m):
        lo, hi = float(m.group(1)), float(m.group(2))
        return "%.6f" % (lo * (hi / lo) ** u)
    return RF_RE.sub(rf, text.replace("{A}", a))


def shapes(recs, seed):
    """one harness record per (family, shape), with the ellipsoids TLC enumerated it on (placeholders substituted)"""
    out = []
    for r in recs:
        if len(r["obs"]) != r["nobs"]:
            raise vlib.ToolError("obligation texts of '%s' collide: %d texts for %d obligations" % (r["shape"], len(r["obs"]), r["nobs"]))
        s = {k: r[k] for k in SHAPE_KEYS}
        s["ells"] = [[substitute(e, r["shape"] + "|" + e, seed), substitute(p, r["shape"] + "|" + e, seed)] for e, p in sorted(r["ells"])]
        out.append(s)
    return out


def config(shape, ellps, partner=""):
    """the harness record of one configuration of a shape"""
    c = {k: shape[k] for k in SHAPE_KEYS}
    c.update({"ellps": ellps, "partner": partner, "def": shape["shape"] + " ellps=" + ellps})
    return c


class Hang(Exception):
    """the code under test did not return: data, not a tool problem"""


def run_geom(tag, records, seed, timeout=1200):
    inp = os.path.join(vlib.WORK, "beh", tag + ".geom.ndjson")
    outp = os.path.join(vlib.WORK, "beh", tag + ".geom.out.ndjson")
    vlib.write_ndjson(inp, records)
    try:
        rc, out = vlib.gvh(["replay", inp, outp, str(seed)], timeout=timeout, bin=BIN)
    except subprocess.TimeoutExpired as ex:
        so = ex.stdout or ""
        so = so.decode(errors="replace") if isinstance(so, bytes) else so
        at = [l[3:] for l in so.splitlines() if l.startswith("at ")]
        raise Hang(at[-1] if at else "?")
    rows = vlib.read_ndjson(outp)
    summary = [x for x in rows if x.get("summary")]
    if not summary:
        raise vlib.ToolError("gvh_geom wrote no summary:\n" + out[-2000:])
    groups = [x for x in rows if x.get("group")]
    cases = [x for x in rows if not x.get("group") and not x.get("summary")]
    return summary[0], groups, cases


def instrument_selftest():
    rc, out = vlib.gvh(["selftest"], bin=BIN)
    if rc != 0:
        raise vlib.ToolError("gvh_geom selftest failed (the measuring instrument itself):\n" + out[-2000:])
    return out.strip().splitlines()[-1]


def minimal_config(cfg, case):
    """the configuration reduced to the one failing obligation, at the very point that was evaluated"""
    c = dict(cfg)
    kind = {"confr": "conf", "arear": "area"}.get(case["kind"], case["kind"])
    pt = case["detail"].get("pt")
    if kind == "-" or pt is None:
        return c
    arg = ""
    if kind == "scale":
        # "one" where the scale is given by lat_ts (no k_0) or on the sphere of webmerc
        arg = "one" if (cfg["k0"] == "" or cfg["fam"] == "webmerc") else "k0"
    c["obs"] = [[kind, repr(float(pt[0])), repr(float(pt[1])), arg]]
    return c


def known(group, kf):
    """a failing group is a known finding iff it matches the finding's signature: family, every `shape_contains`
    substring in the shape text, what failed, and (if given) no value above `max_value`"""
    for k in kf:
        sg = k.get("signature", {})
        if sg.get("family") != group["fam"]:
            continue
        if not all(t in group["shape"] for t in sg.get("shape_contains", [])):
            continue
        if "what" in sg and group["what"] not in sg["what"]:
            continue
        if "max_value" in sg and not (group["max"] <= sg["max_value"]):
            continue
        return k
    return None


def signature(g):
    """one defect = one violation: the random-cell kinds count with their lattice kinds, and a NaN / panic / refusal is
    not specific to the kind of obligation that met it"""
    kind = {"confr": "conf", "arear": "area"}.get(g["kind"], g["kind"])
    if g["what"] in ("panic", "opfail") and g["kind"] == "-" and len(g["ellps"]) <= 3:
        return "geometry|%s|ellps=%s" % (g["what"], ",".join(g["ellps"]))     # tied to an ellipsoid, whatever the projection
    if g["what"] in ("nan", "panic", "opfail"):
        return "geometry|%s|%s|%s" % (g["fam"], g["shape"], g["what"])
    return "geometry|%s|%s|%s|%s" % (g["fam"], g["shape"], kind, g["what"])


def run(tier, seed):
    res = vlib.Result(PROP, tier, seed, "model_checking")
    vlib.build_harness(BIN)
    q = tier == "quick"
    res.extra["instrument_selftest"] = instrument_selftest()
    r = vlib.tlc_must_pass(vlib.tlc("MC_C05", "MC_C05_q" if q else "MC_C05_t", workers=4, timeout=600 if q else 1500, xmx="8g", seed=seed))
    vlib.require_coverage(r, ["Pick"])
    res.add_tlc(r)
    recs = r["records"].get("GEO", [])
    if not recs:
        raise vlib.ToolError("MC_C05 emitted no configurations")
    shp = shapes(recs, seed)
    # the states TLC explored are exactly the configurations (shape x ellipsoid) and their obligations
    nconf = sum(len(s["ells"]) for s in shp)
    expected = sum(len(s["ells"]) * len(s["obs"]) for s in shp)
    if nconf + expected != r["distinct"]:
        raise vlib.ToolError("configurations (%d) + obligations (%d) exported differ from the states TLC enumerated (%d)" % (nconf, expected, r["distinct"]))
    fams = collections.Counter(s["fam"] for s in shp)
    for f in FAMILIES:
        if not fams.get(f):
            raise vlib.ToolError("vacuous: no shape of " + f)
    try:
        summary, groups, cases = run_geom(PROP, shp, seed, timeout=300 if q else 1200)
    except Hang as h:
        # (thorough: 7.9e6 obligations take about 30 s)
        res.add_violation({"suite": "geometry", "what": "hang", "def": str(h), "expected": "apply(Fwd) returns",
                           "observed": "gvh_geom did not finish within %d s; last configuration announced: %s" % (300 if q else 1200, h),
                           "config": next((config(s, e[0], e[1]) for s in shp for e in s["ells"] if s["shape"] + " ellps=" + e[0] == str(h)), None),
                           "signature": "geometry|hang|" + str(h).split(" ellps=")[0]})
        return res.finish()
    if summary["obligations"] != expected:
        raise vlib.ToolError("obligations evaluated (%d) differ from the obligations TLC enumerated (%d)" % (summary["obligations"], expected))
    for kind in KINDS:
        if not summary["kinds"].get(kind):
            raise vlib.ToolError("vacuous: no obligation of kind " + kind)
    res.evaluations = summary["evaluations"]
    res.assumption_evaluations = summary["obligations"]
    failing_defs = set()
    for g in groups:
        failing_defs |= set((g["shape"], e) for e in g["ellps"])
    res.behaviours_replayed = nconf - len(failing_defs)            # configurations all of whose obligations hold
    res.distinct_nontrivial = len(set((s["fam"], s["shape"], o[0]) for s in shp for o in s["obs"]))
    res.exhaustive = True
    tols = {}
    for s in shp:
        tols.setdefault(s["chr"], s["tol"])
    worst = {m: {f: x["max"] for f, x in byfam.items()} for m, byfam in summary["worst"].items()}
    res.extra.update({
        "configurations": nconf, "obligations": summary["obligations"], "failing": summary["failing"],
        "shapes": len(shp), "ellipsoids": len(set(e[0] for s in shp for e in s["ells"])),
        "families": summary["families"], "obligations_by_kind": summary["kinds"],
        "tolerances_ppb_or_nm_by_character": tols,
        "measured_worst_case_of_holding_obligations": worst,
        "measured_worst_case_overall": {m: max(v.values()) for m, v in worst.items()},
        "measured_worst_case_where": {m: {f: x["at"] for f, x in byfam.items()} for m, byfam in summary["worst"].items()},
        "not_compared": summary["not_compared"],
        "failing_groups": [{k: g[k] for k in ("fam", "shape", "kind", "what", "failing", "max", "ellps")} for g in groups],
    })
    if not q:
        for n in summary["ellipsoids_in_code_not_enumerated"]:
            res.uncovered.append("ellipsoid in the code's table not enumerated by spec/Geometry.tla: " + n)
    for what, n in summary["not_compared"].items():
        res.uncovered.append("%s (%d configurations)" % (what, n))
    res.rule = ("spec/Geometry.tla states per projection family (merc, webmerc, tmerc, utm, btmerc, butm, lcc, omerc, somerc, laea) its geometric character, "
                "its lines/points of true scale with the expected scale (k_0 or 1), its origin conventions, its domain and its parameterisations; TLC checks "
                "that the character table is total, every lattice point and every corner of every random cell lies in the stated domain, every true-scale "
                "obligation lies on a declared locus with a declared scale, every family has an obligation that pins its scale, both hemispheres / all laea "
                "aspects / omerc variants A and B / lcc 1SP and 2SP / merc k_0 and lat_ts are covered, and the number of obligations is the product of the "
                "lattices; it enumerates family x shape x ellipsoid x obligation. Every obligation is evaluated on the real operator (forward only): "
                "conformal = h, k equal and meridian/parallel images orthogonal within the class tolerance, determinant positive; equal-area = determinant 1; "
                "true scale = h and k equal the declared value; origin = centre maps to (x_0, y_0); arc = easting x_0 and northing y_0 + k_0 * meridian arc "
                "from lat_0 on the central meridian; sph = webmerc is a*lon, a*ln tan(pi/4 + lat/2) (and equals merc on that sphere where it can be written); "
                "fac = the library's factors() agree with the finite differences. Non-trivial = distinct (family, shape, kind) triples (the identity mapping "
                "fails every kind).")
    res.assumptions = [
        "PARTIAL CLAIM: the differential identities are evaluated numerically at the lattice points and random points TLC enumerates, not proved between them; "
        "the specification contributes the catalogue (character, loci, origin conventions, domain, parameterisations, ellipsoids) and the enumeration; the "
        "evaluations are counted in assumption_evaluations",
        "instrument: 4th-order central differences in f64, h_lat = min(1e-4, 0.003*colatitude) where the pole is a singular point of the map (merc, webmerc, lcc), "
        "else min(1e-4, 0.2*colatitude); h_lon = clamp(1e-4/cos(lat), 1e-4, 2e-3) rad; error budget per normalised derivative: truncation <= (4/5)(h/L)^4 with L "
        "the distance to the nearest singularity (<= 4e-10 in latitude, <= 2e-9 in longitude at the cap), rounding <= 1.5 ulp(|X|)/(h D) (<= 2e-10 for a >= 6.3e6 m; "
        "reported per family as instrument_rounding); gvh_geom selftest: " + res.extra["instrument_selftest"],
        "meridian and parallel radii M, N cos(lat) and the meridian arc (8 x 16-point Gauss-Legendre, cross-checked against Simpson in the selftest) are computed in "
        "the harness from (a, f); for a built-in ellipsoid name, a and f are READ from the library's table (data, not behaviour)",
        "tolerances (spec/Geometry.tla Tol): conformal / true scale 1e-7 relative; btmerc/butm conformality 1e-6 (Bowring's series is only approximately conformal; "
        "measured <= 1e-9 within +-3 degrees for f <= 1/150); equal-area 1e-5 (laea loses digits near the poles, in proportion to 1/e on nearly spherical "
        "ellipsoids; measured <= 2e-8); factors() 1e-6; origin and arc 1e-5 m, webmerc closed form 1e-4 m on an Earth-sized ellipsoid (scaled with a) + 8 ulp of the "
        "false origin / expected value; measured worst cases of this run: coverage.measured_worst_case_overall = "
        + json.dumps({m: float("%.3g" % v) for m, v in res.extra["measured_worst_case_overall"].items()}),
        "webmerc is judged as the Mercator projection of the SPHERE of radius a: its Jacobian is normalised with M = N = a; the relational comparison with merc is "
        "made on the built-in spheres and, for 'a,rf' ellipsoids, with `merc ellps=a,1e30`",
        "merc: lat_0 is never written (the statement does not give it a meaning); lcc: the origin convention is evaluated only where lat_0 is written; omerc: the "
        "false origin is the image of the centre in variant B only (variant A: natural origin, not compared), azimuths are written in [-90, 90] degrees, the Laborde "
        "case (gamma_c absent) is not written; btmerc/butm: the meridian-arc clause is not evaluated (the statement makes it for tmerc)",
        "omerc and somerc have no documented domain: +-6 x +-3 / +-3 x +-3 degrees around the centre; laea: |dlat| + |dlon| <= 150 degrees from the centre; "
        "the poles themselves are excluded (the graticule is singular there) except as origin of polar laea / lcc",
        "the unit sphere (a = 1 m) is combined only with shapes without a false origin; synthetic ellipsoids are 'a,rf' with a in [6.3e6, 6.4e6] m, 150 <= rf <= 1e5 "
        "(seeded: VERIF_SEED); f = 0 is covered by the built-in spheres",
        "not compared: the inverse direction (C01), parameter conventions between definitions (C13), points between lattice points, |lat| > 89.8 degrees, "
        "tmerc beyond 60 and btmerc beyond 3 degrees from the central meridian, which way grid north points (a map turned by 180 degrees is still conformal), "
        "laea true scale at its centre (not in the statement; the constant D of the oblique aspect cancels out of the areal scale)",
    ]
    by_shape = {s["shape"]: s for s in shp}
    kf = vlib.known_findings(PROP)
    merged = collections.OrderedDict()
    for g in groups:
        k = known(g, kf)
        if k:
            res.add_known(k["id"], k["what"])
            continue
        m = merged.setdefault(signature(g), {"groups": [], "failing": 0, "ellps": set()})
        m["groups"].append(g)
        m["failing"] += g["failing"]
        m["ellps"] |= set(g["ellps"])
    for sig, m in merged.items():
        g = max(m["groups"], key=lambda x: (x["kind"] not in ("confr", "arear", "fac"), x["failing"]))
        w = g["worst"]
        s = by_shape.get(g["shape"])
        partner = next((e[1] for e in s["ells"] if e[0] == w["ellps"]), "") if s else ""
        res.add_violation({
            "suite": "geometry", "what": g["what"], "kind": g["kind"], "family": g["fam"], "shape": g["shape"], "def": w["def"],
            "failing": m["failing"], "kinds": sorted(set(x["kind"] for x in m["groups"])), "ellipsoids": sorted(m["ellps"]),
            "expected": "%s <= %g" % (g["what"], w["tol"]), "observed": {"value": w["value"], "detail": w["detail"]},
            "config": minimal_config(config(s, w["ellps"], partner), w) if s else None, "signature": sig})
    pick = {}
    for s in shp:
        if not any((s["shape"], e[0]) in failing_defs for e in s["ells"]):
            pick.setdefault(s["fam"], s)
    res.samples = [dict(config(s, s["ells"][0][0], s["ells"][0][1]), obs=sorted(s["obs"])[:8]) for s in list(pick.values())[:6]]
    return res.finish()


def replay(path):
    vlib.build_harness(BIN)
    with open(path) as f:
        v = json.load(f)
    cfg = v.get("config")
    if not cfg:
        print("replay file has no configuration")
        return 2
    summary, groups, cases = run_geom("replay-" + PROP, [cfg], v.get("seed", 1))
    if summary["failing"]:
        print("VIOLATION property=%s replay=%s" % (PROP, path))
        print(json.dumps(cases[0] if cases else groups[0])[:2000])
        return 1
    print("replay passes on the current tree")
    return 0


def selftest(seed):
    """Corrupt the expectations of configurations that hold and require every corruption to be noticed."""
    vlib.build_harness(BIN)
    print("instrument:", instrument_selftest())
    r = vlib.tlc_must_pass(vlib.tlc("MC_C05", "MC_C05_q", workers=4, timeout=600, xmx="8g", seed=seed))
    shp = shapes(r["records"]["GEO"], seed)

    def first(fam, pred=lambda s: True):
        return config(next(s for s in shp if s["fam"] == fam and pred(s)), "GRS80")

    def copy(c):
        return json.loads(json.dumps(c))
    base = [first("tmerc", lambda s: s["k0"] == "0.9996"), first("laea", lambda s: s["tag"] == "oblique"), first("lcc", lambda s: s["x0"] != "0"),
            first("merc", lambda s: s["tag"] == "lat_ts")]
    s0, _, _ = run_geom(PROP + "-selftest", base, seed)
    if s0["failing"]:
        print("selftest: the uncorrupted configurations fail")
        return 2
    bad = []
    c = copy(base[0]); c["k0"] = "0.99961"; bad.append(("k_0 off by 1e-5", c, {"scale", "arc"}))
    c = copy(base[1]); c["obs"] = [["conf" if o[0] == "area" else o[0]] + o[1:] for o in c["obs"]]; c["tol"]["conf"] = 100; bad.append(("laea declared conformal", c, {"aniso"}))
    c = copy(base[2]); c["x0"] = str(int(c["x0"]) + 1); bad.append(("false easting off by 1 m", c, {"origin"}))
    c = copy(base[3]); c["obs"] = [[o[0], o[1], "57" if o[0] == "scale" else o[2], o[3]] for o in c["obs"]]; bad.append(("lat_ts declared one degree off", c, {"scale"}))
    c = copy(base[0]); c["obs"] = [["area" if o[0] == "conf" else o[0]] + o[1:] for o in c["obs"]]; c["tol"]["area"] = 100; bad.append(("tmerc declared equal-area", c, {"area"}))
    c = copy(base[0]); c["def"] = c["def"].replace("tmerc", "btmerc"); c["obs"] = [o for o in c["obs"] if o[0] != "arc"]; c["tol"]["conf"] = 0.001; bad.append(("btmerc held to 1e-12", c, {"aniso"}))
    ok = True
    for name, c, want in bad:
        s, groups, _ = run_geom(PROP + "-selftest", [c], seed)
        got = set(g["what"] for g in groups)
        good = bool(got) and want <= got
        print("selftest: %-45s -> %s %s" % (name, sorted(got), "ok" if good else "NOT AS REQUIRED"))
        ok = ok and good
    return 0 if ok else 2
