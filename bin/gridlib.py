"""Helpers shared by the grid suites C08 and C15 (harness binary gvh_grid)."""
import json, os, re, resource, subprocess, time
import vlib

BIN = "gvh_grid"
BEH = os.path.join(vlib.WORK, "beh")
WORKERS = int(os.environ.get("VERIF_TLC_WORKERS", "4"))


def tlc_records(module, cfg, kind, timeout, xmx="6g"):
    """Run TLC without -coverage (with it, TLC instruments the evaluation of the constant
    catalogue of scenarios and runs out of memory) and derive the per-action counts from the
    shape of the state graph: depth 3 = 1 initial state + one state per catalogue entry
    (Choose*) + one state per (entry, point / fault) (Pick*)."""
    r = vlib.tlc_must_pass(vlib.tlc(module, cfg, workers=WORKERS, timeout=timeout, coverage=False, xmx=xmx))
    recs = r["records"].get(kind, [])
    if not recs:
        raise vlib.ToolError("no %s records exported by %s" % (kind, cfg))
    chosen = len(recs)
    picked = r["distinct"] - 1 - chosen
    r["coverage"] = {"Choose": chosen, "Pick": picked}
    if picked <= 0 or chosen <= 0:
        raise vlib.ToolError("vacuous model run %s: %d entries, %d (entry, point/fault) states" % (cfg, chosen, picked))
    return r, recs


def _limit(mem_bytes):
    def f():
        resource.setrlimit(resource.RLIMIT_AS, (mem_bytes, mem_bytes))
        resource.setrlimit(resource.RLIMIT_CORE, (0, 0))
    return f


def run_faults(case, tag, mem_bytes=2 << 30, stall=6.0, max_deaths=40, ops=True):
    """Decode + query every damaged variant of one file in a child process with an
    address-space limit and a wall-clock watchdog.  A panic is reported by the child; an
    abort (allocation failure, stack overflow) or a hang kills the child: the fault it was
    working on is reported and the run resumes after it.
    Returns (summary, violating) with violating = list of {i, fault, what, msg}."""
    exe = vlib.build_harness(BIN)
    os.makedirs(os.path.join(BEH, "C15"), exist_ok=True)
    job = os.path.join(BEH, "C15", tag + ".job.json")
    out = os.path.join(BEH, "C15", tag + ".out.ndjson")
    prog = os.path.join(BEH, "C15", tag + ".progress")
    for p in (out, prog):
        if os.path.exists(p):
            os.remove(p)
    faults = case["faults"]
    start, deaths, extra = 0, 0, []
    partial = {"err": 0, "ok_safe": 0, "evaluations": 0}      # counts of segments that died before their summary
    while start < len(faults):
        with open(job, "w") as f:
            json.dump({"case": case, "start": start, "ops": ops}, f)
        if os.path.exists(prog):
            os.remove(prog)
        p = subprocess.Popen([exe, "fault", job, out, prog], cwd=vlib.VERIF, stdout=subprocess.PIPE,
                             stderr=subprocess.STDOUT, preexec_fn=_limit(mem_bytes))
        last, last_t, why = None, time.time(), None
        while True:
            try:
                p.wait(timeout=0.25)
                break
            except subprocess.TimeoutExpired:
                pass
            try:
                cur = open(prog).read().split()[0]
            except (OSError, IndexError):
                cur = None
            if cur != last:
                last, last_t = cur, time.time()
            elif time.time() - last_t > stall:
                p.kill()
                p.wait()
                why = "hang"
                break
        tail = (p.stdout.read() or b"").decode("utf-8", "replace")[-400:]
        if why is None and p.returncode == 0:
            break
        # the child died or hung: attribute to the fault in progress, resume after it
        try:
            cur, c_err, c_ok, c_evals = [int(t) for t in open(prog).read().split()]
            partial["err"] += c_err
            partial["ok_safe"] += c_ok
            partial["evaluations"] += c_evals
        except Exception:
            raise vlib.ToolError("fault runner died before starting a fault (%s): %s" % (tag, tail))
        what = why or ("abort (signal %d)" % -p.returncode if p.returncode < 0 else "abort (exit %d)" % p.returncode)
        extra.append({"i": cur, "fault": faults[cur], "what": "hang" if why else "abort", "msg": (what + " " + tail).strip()})
        deaths += 1
        start = cur + 1
        if deaths >= max_deaths:
            extra.append({"i": start, "fault": None, "what": "not_run", "msg": "%d faults not run after %d deaths" % (len(faults) - start, deaths)})
            break
    rows = []
    if os.path.exists(out):
        for line in open(out):
            try:
                rows.append(json.loads(line))
            except ValueError:
                pass          # a line cut short by the death of the child
    summ = {"faults": len(faults), "err": 0, "ok_safe": 0, "violating": 0, "evaluations": 0, "deaths": deaths}
    for r in rows:
        if r.get("summary"):
            for k in ("err", "ok_safe", "evaluations"):
                summ[k] += r[k]
    for k in partial:
        summ[k] += partial[k]
    violating = [r for r in rows if not r.get("summary")] + [e for e in extra if e["what"] != "not_run"]
    # a segment that died did not write its summary: count what it reported
    summ["violating"] = len(violating)
    summ["not_run"] = sum(1 for e in extra if e["what"] == "not_run")
    return summ, violating


def panic_class(msg):
    """Stable class of a panic / abort message (numbers removed)."""
    m = re.sub(r"\d+", "N", msg or "")
    m = re.sub(r"\s+", " ", m).strip()
    return m[:120]
