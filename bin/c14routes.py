"""C14, the numeric route pairs ("where the library offers two routes to the same result they agree to the
accuracy of the weaker one").

route_pairs(tier, seed, res): TLC enumerates pair x shared parameter values x ellipsoid x lattice point x direction over
spec/Routes.tla (MC_C14_routes_q / MC_C14_routes_t) and checks the catalogue against the statement (every named pair is
present, every lattice point inside the common domain, accuracy classes those of the statement, obligation count = product
of the axes); the harness (gvh_routes eval) runs both routes of every obligation on the real library - operators through
Context::apply on a Minimal context, methods through the public ellipsoid API - and compares them with the class.
Adds to `res` (a vlib.Result owned by the caller): the TLC run, evaluations / assumption_evaluations, assumptions,
uncovered items, one violation per failing (pair, parameter shape, direction, kind of failure) with the worst case as a
one-obligation record that replays, and res.extra["route_pairs"] with the measured worst case per pair (tolerance table).
A failing group is a KNOWN-FINDING instead iff known_findings.json has a C14 entry whose signature names the deviation
switch of spec/Routes.tla that predicts every failing case of the group ({"deviation": "DEV_..."}), or bounds it
({"pair", "max_residual"[, "dir", "ellps"]}).  Returns (summary, groups); summary is None if the harness hung / crashed.

replay(v): re-evaluates the one-obligation record of a violation written by route_pairs (v: dict or path of a replay file).
selftest(): probe obligations just beyond / within every class that the harness must (not) report (binding test; also run
inside route_pairs)."""
import json, os, subprocess
import vlib

BIN = "gvh_routes"
SUITE = "route-pairs"
# the pairs the statement names, by the clause of spec/Routes.tla that realises them
CLAUSES = {"tm": "tmerc vs btmerc", "cart": "cart vs GeoCart", "latitude": "latitude vs Latitudes", "curvature": "curvature vs EllipsoidBase",
           "geodesic": "geodesic vs Geodesics", "gravity": "gravity vs Gravity", "auxlat": "series latitudes vs closed forms",
           "meridian": "meridian arcs vs quadrature"}
# what the quadrature of the harness (Gauss-Legendre, 64 nodes, compensated sum, binary64) is allowed to differ from its own
# 40-node evaluation, relative to the semimajor axis (1e-14 * 6.4e6 m = 6e-8 m, far below the 1e-6 m class)
QUADRATURE_SELFCHECK = 1e-14


def _tol(d):
    return d["tol"]["m"] * 10.0 ** d["tol"]["e"]


def _harness(tag, recs, timeout=1500):
    """Run gvh_routes eval on records.  Returns (rows, abnormal) where abnormal is None or a violation-like dict when the
    code under test hung or killed the harness (a hang / crash of the code under test is data, not a tool error)."""
    exe = vlib.build_harness(BIN)
    inp = os.path.join(vlib.WORK, "beh", tag + ".ndjson")
    outp = os.path.join(vlib.WORK, "beh", tag + ".out.ndjson")
    vlib.write_ndjson(inp, recs)
    if os.path.exists(outp):
        os.remove(outp)
    what, text = None, ""
    try:
        p = subprocess.run([exe, "eval", inp, outp], cwd=vlib.VERIF, timeout=timeout, stdout=subprocess.PIPE, stderr=subprocess.STDOUT, text=True)
        text = p.stdout
        if p.returncode == 2:
            raise vlib.ToolError("gvh_routes: specification and harness out of step:\n" + text[-3000:])
        if p.returncode not in (0, 1):
            what = "crash"
    except subprocess.TimeoutExpired:
        what = "hang"
    rows = vlib.read_ndjson(outp) if os.path.exists(outp) else []
    if what is None:
        return rows, None
    begun = [x for x in rows if "begin" in x]
    if not begun:
        raise vlib.ToolError("gvh_routes %s before its first record:\n%s" % (what, text[-2000:]))
    k = begun[-1]["begin"]
    rec = recs[k]
    return rows, {"what": what, "record": rec, "pair": rec["pair"], "shape": rec["shape"], "ellps": rec["ellps"],
                  "detail": ("no answer within %d s" % timeout) if what == "hang" else text[-1500:]}


def _probe_records():
    """Obligations over the harness's own probe routes (independent of the library's numerics): for every way of comparing,
    one pair of routes just beyond the class (must be reported failing) and one within it (must not)."""
    geo = [[120, 550, 100, 0], [-1775, -300, 0, 0], [0, 0, 0, 0]]
    big = [[0, 63781370, 0, 0], [0, -12345678, 0, 0]]          # read as (latitude, height): lengths ten and two times the semimajor axis
    ident = {"k": "api", "F": "probe: identity", "I": "probe: identity"}

    def api(f):
        return {"k": "api", "F": f, "I": f}

    def d(cls, m, e, unit, joint, el, dir="F", via="", expect="b"):
        return {"dir": dir, "cls": cls, "tol": {"m": m, "e": e, "unit": unit}, "via": via, "expect": expect, "cmp": {"joint": joint, "el": el}}

    skip = ["skip"] * 4
    lat = ["skip", "rad", "skip", "skip"]
    out = []

    def add(label, fail, a, b, dirrec, pts=geo, dk="lonlat10", what="residual"):
        out.append({"label": label, "fail": fail, "what": what,
                    "rec": {"pair": "selftest:%d" % len(out), "clause": "selftest", "shape": label, "ellps": "GRS80", "a": a, "b": b, "dk": dk,
                            "dev": {"name": "", "b": {"k": "api", "F": "", "I": ""}}, "dirs": [dirrec], "pts": pts, "n": len(pts)}})

    a_m = 6378137.0
    # sub-millimetre, in the plane and on the ground
    add("plane 2 mm apart", True, ident, api("probe: add 0 0.002"), d("submm", 1, -3, "m", "plane", skip))
    add("plane 0.2 mm apart", False, ident, api("probe: add 1 0.0002"), d("submm", 1, -3, "m", "plane", skip))
    add("ground 2 mm apart (latitude)", True, ident, api("probe: add 1 %r" % (2e-3 / a_m)), d("submm", 1, -3, "m", "ground2", skip))
    add("ground 0.2 mm apart (latitude)", False, ident, api("probe: add 1 %r" % (2e-4 / a_m)), d("submm", 1, -3, "m", "ground2", skip))
    add("ground 2 mm apart (height)", True, ident, api("probe: add 2 0.002"), d("submm", 1, -3, "m", "ground3", skip))
    add("ground2 ignores the height", False, ident, api("probe: add 2 5"), d("submm", 1, -3, "m", "ground2", skip))
    # bit identity
    add("one ulp apart", True, ident, api("probe: scale 1 2.220446049250313e-16"), d("identical", 0, 0, "bits", "", ["bits"] * 4), pts=geo[:2], what="bits")
    add("identical", False, ident, ident, d("identical", 0, 0, "bits", "", ["bits"] * 4))
    # to rounding: 1e-12 of the magnitude
    add("lengths 2e-12 apart (relative)", True, ident, api("probe: scale 1 2e-12"), d("rounding", 1, -12, "rel", "", ["skip", "len", "skip", "skip"]), pts=big, dk="lath")
    add("lengths 5e-13 apart (relative)", False, ident, api("probe: scale 1 5e-13"), d("rounding", 1, -12, "rel", "", ["skip", "len", "skip", "skip"]), pts=big, dk="lath")
    add("small lengths 2e-12 a apart", True, ident, api("probe: add 0 %r" % (2e-12 * a_m)), d("rounding", 1, -12, "rel", "", ["len", "skip", "skip", "skip"]))
    add("small lengths 5e-13 a apart", False, ident, api("probe: add 0 %r" % (5e-13 * a_m)), d("rounding", 1, -12, "rel", "", ["len", "skip", "skip", "skip"]))
    add("degrees 2e-12 x 180 apart", True, ident, api("probe: add 0 3.6e-10"), d("rounding", 1, -12, "rel", "", ["deg", "skip", "skip", "skip"]), dk="geodinv")
    add("degrees 5e-13 x 180 apart", False, ident, api("probe: add 0 9e-11"), d("rounding", 1, -12, "rel", "", ["deg", "skip", "skip", "skip"]), dk="geodinv")
    add("degrees a full turn apart", False, ident, api("probe: add 0 360"), d("rounding", 1, -12, "rel", "", ["deg", "skip", "skip", "skip"]), dk="geodinv")
    add("numbers 2e-12 apart", True, ident, api("probe: add 1 2e-12"), d("rounding", 1, -12, "rel", "", ["skip", "num", "skip", "skip"]))
    add("numbers 5e-13 apart", False, ident, api("probe: add 1 5e-13"), d("rounding", 1, -12, "rel", "", ["skip", "num", "skip", "skip"]))
    # auxiliary latitudes and arcs
    add("latitudes 2e-11 rad apart", True, ident, api("probe: add 1 2e-11"), d("aux", 1, -11, "rad", "", lat))
    add("latitudes 5e-12 rad apart", False, ident, api("probe: add 1 5e-12"), d("aux", 1, -11, "rad", "", lat))
    add("arcs 2e-6 m apart", True, ident, api("probe: add 1 2e-6"), d("arc", 1, -6, "m", "", ["skip", "len", "skip", "skip"]), pts=big, dk="lath")
    add("arcs 5e-7 m apart", False, ident, api("probe: add 1 5e-7"), d("arc", 1, -6, "m", "", ["skip", "len", "skip", "skip"]))
    # inverse obligations: input through a forward route, expectation the lattice point
    add("inverse returns the origin", False, api("probe: add 1 -0.25"), api("probe: add 1 0.25"), d("aux", 1, -11, "rad", "", lat, dir="I", via="b.F", expect="origin"))
    add("inverse misses the origin", True, api("probe: add 1 -0.25"), api("probe: add 1 0.2500000001"), d("aux", 1, -11, "rad", "", lat, dir="I", via="b.F", expect="origin"))
    # NaN, panic, an operator route
    add("NaN in a compared element", True, ident, api("probe: nan 1"), d("aux", 1, -11, "rad", "", lat), what="nan")
    add("NaN in an element not compared", False, ident, api("probe: nan 3"), d("aux", 1, -11, "rad", "", lat))
    add("panic of a route", True, ident, api("probe: panic"), d("aux", 1, -11, "rad", "", lat), what="panic")
    add("operator route 1 m off", True, {"k": "op", "F": "t_add e=1 c=1", "I": "t_add e=1 c=1"}, ident, d("submm", 1, -3, "m", "plane", skip))
    add("operator route in place", False, {"k": "op", "F": "t_add e=1 c=0", "I": "t_add e=1 c=0"}, ident, d("submm", 1, -3, "m", "plane", skip))
    add("operator that does not exist", True, {"k": "op", "F": "no_such_operator", "I": "no_such_operator"}, ident, d("submm", 1, -3, "m", "plane", skip), what="opfail")
    return out


def selftest(recs=None):
    """Binding test of harness + comparison on the harness's own probe routes: every obligation just beyond its class must
    be reported failing (with the right kind of failure), every one within it must not.  Independent of the library's
    numerics, so a defect of the code under test cannot turn into a tool error here.  Returns the number of probes."""
    probes = _probe_records()
    rows, abnormal = _harness("C14routes-selftest", [p["rec"] for p in probes], timeout=300)
    if abnormal:
        raise vlib.ToolError("self-test: harness %s" % abnormal["what"])
    groups = [x for x in rows if x.get("group")]
    if not [x for x in rows if x.get("summary")]:
        raise vlib.ToolError("self-test: no summary written")
    for p in probes:
        rec = p["rec"]
        mine = [g for g in groups if g["pair"] == rec["pair"]]
        got = sum(g["failing"] for g in mine)
        want = len(rec["pts"]) if p["fail"] else 0
        if got != want or any(g["what"] != p["what"] for g in mine):
            raise vlib.ToolError("self-test: the comparison does not bind: `%s`: %d obligations reported failing %s, expected %d (%s)"
                                 % (p["label"], got, [g["what"] for g in mine], want, p["what"]))
    return len(probes)


def _known(g, kfs):
    """A failing group is a known finding iff it is a residual that stays within the finding's recorded bound, for the
    finding's pair (and direction / ellipsoids, when the finding names them)."""
    if g["what"] != "residual":
        return None
    for k in kfs:
        sg = k.get("signature", {})
        # precisely: every failing case of the group equals the prediction of the finding's deviation switch
        if sg.get("deviation"):
            if g.get("deviation") == sg["deviation"] and sg.get("pair", g["pair"]) == g["pair"]:
                return k
            continue
        if sg.get("pair") != g["pair"]:
            continue
        if "dir" in sg and sg["dir"] != g["dir"]:
            continue
        if "ellps" in sg and not set(g["ellps"]) <= set(sg["ellps"]):
            continue
        if g["max_residual"] <= sg.get("max_residual", -1):
            return k
    return None


def route_pairs(tier, seed, res):
    vlib.build_harness(BIN)
    q = tier == "quick"
    cfg = "MC_C14_routes_q" if q else "MC_C14_routes_t"
    r = vlib.tlc_must_pass(vlib.tlc("MC_C14_routes", cfg, workers=4, timeout=1500, xmx="8g", seed=seed))
    vlib.require_coverage(r, ["Pick"])
    res.add_tlc(r)
    recs = r["records"].get("ROUTE", [])
    if not recs:
        raise vlib.ToolError("MC_C14_routes emitted no obligations")
    # TLC's states beyond the initial ones are the obligations; each record says how many it stands for
    expected = r["distinct"] - len(recs)
    if sum(x["n"] for x in recs) != expected or any(x["n"] != len(x["pts"]) * len(x["dirs"]) for x in recs):
        raise vlib.ToolError("obligations exported (%d) differ from the obligations TLC enumerated (%d)" % (sum(x["n"] for x in recs), expected))
    missing = [c for c in CLAUSES if not any(x["clause"] == c for x in recs)]
    if missing:
        raise vlib.ToolError("vacuous: no obligation for %s" % [CLAUSES[c] for c in missing])
    nself = selftest(recs)
    # the harness needs seconds; the limit only bounds a hang of the code under test (C14ROUTES_TIMEOUT: for trying that out)
    rows, abnormal = _harness("C14routes", recs, timeout=int(os.environ.get("C14ROUTES_TIMEOUT", "0")) or (300 if q else 900))
    summary = [x for x in rows if x.get("summary")]
    groups = [x for x in rows if x.get("group")]
    stats = [x for x in rows if x.get("stat")]
    if abnormal:
        # the code under test hung or took the process down: a violation, attributed to the record being evaluated
        rec = abnormal["record"]
        res.add_violation({"suite": SUITE, "what": abnormal["what"], "def": rec["a"].get("F") or rec["a"].get("I"), "pair": rec["pair"],
                           "shape": rec["shape"], "ellipsoids": [rec["ellps"]], "expected": "both routes return", "observed": abnormal["detail"],
                           "record": rec, "signature": "routes|%s|%s|%s" % (abnormal["what"], rec["pair"], rec["shape"])})
        res.extra["route_pairs"] = {"obligations": expected, "abnormal": abnormal["what"]}
        return None, groups
    if not summary:
        raise vlib.ToolError("gvh_routes wrote no summary")
    summary = summary[0]
    if summary["obligations"] != expected:
        raise vlib.ToolError("obligations evaluated (%d) differ from the obligations TLC enumerated (%d)" % (summary["obligations"], expected))
    if not (summary["quadrature_selfcheck"] <= QUADRATURE_SELFCHECK):
        raise vlib.ToolError("the harness's quadrature does not reproduce itself: %r" % summary["quadrature_selfcheck"])
    res.assumption_evaluations += summary["obligations"]
    res.evaluations += summary["evaluations"]
    table = [{k: s[k] for k in ("pair", "dir", "clause", "cls", "tol", "unit", "n", "failing", "excluded", "max_residual", "max_ratio", "worst",
                                "largest_by_ellipsoid")} for s in stats]
    res.extra["route_pairs"] = {
        "obligations": summary["obligations"], "failing": summary["failing"], "excluded": summary["excluded"], "configurations": len(recs),
        "pairs": len({x["pair"] for x in recs}), "self_test_probe_obligations_judged_as_expected": nself,
        "quadrature_selfcheck_relative_to_a": summary["quadrature_selfcheck"], "worst_case_per_pair_and_direction": table,
        "failing_groups": [{k: g[k] for k in ("pair", "shape", "dir", "what", "failing", "of", "max_residual", "ellps", "deviation")} for g in groups]}
    # for the caller's distinct_nontrivial / samples: configurations in which two different code paths are compared, one record
    summary["distinct_pair_shape_ellipsoid_direction"] = sum(len(x["dirs"]) for x in recs)
    smp = dict(recs[len(recs) // 2])
    smp["pts"] = smp["pts"][:3] + ["..."]
    summary["sample"] = smp
    # ---- what is not compared
    if q:
        res.uncovered.append("route pairs, quick tier: %d of the %d built-in ellipsoids enumerated (all of them in the thorough tier)"
                             % (len({x["ellps"] for x in recs}), len({x["ellps"] for x in recs}) + len(summary["ellipsoids_in_code_not_enumerated"])))
    else:
        for n in summary["ellipsoids_in_code_not_enumerated"]:
            res.uncovered.append("ellipsoid in the code's table not enumerated by spec/Routes.tla: " + n)
    if summary["excluded"]:
        res.uncovered.append("route pairs: %d obligations not compared because the method route reports no convergence there" % summary["excluded"])
    res.uncovered.append("route pairs: gravity jeffreys / cassinis WITH a height (the rock density the operator passes to "
                         "cassinis_height_correction is not documented): only their zero-height form is compared")
    res.uncovered.append("route pairs: cart and geodesic on `unitsphere` (heights and distances of the lattices are metres: meaningless on a "
                         "sphere of radius 1 m)")
    res.assumptions.append("route pairs: classes are those of the C14 statement: tmerc/btmerc and utm/butm 1e-3 m (forward: in the plane; inverse: on the "
                           "ground, from tmerc's forward image) for |lon - lon_0| <= 3 degrees, |lat| <= 89; cart forward bit-identical, inverse 1e-3 m on the "
                           "ground (heights -10 km .. 100 km, poles included); latitude / curvature / geodesic / gravity operators against the methods "
                           "1e-12 relative to max(|values|, natural magnitude: semimajor axis for lengths, pi / 180 for angles, 1 for gravity) - measured "
                           "on the unchanged tree: 0 (bit-identical); series latitudes against closed forms 1e-11 rad for |lat| <= 89; meridian arcs "
                           "against Gauss-Legendre quadrature (64 nodes, own error < 1e-7 m, checked at run time against 40 nodes) 1e-6 m")
    res.assumptions.append("route pairs: which element carries which quantity is read off Rumination 002 and the operator sources: latitude reads/writes "
                           "element 2 (radians); curvature and gravity read degrees (and metres) and write element 1; geodesic reads and writes degrees, "
                           "latitude first; forward geodesic: only the destination (elements 1, 2) is compared; inverse: azimuths modulo 360 degrees; "
                           "curvature gaussian / mean / azimuthal are compared with the formulas of Rumination 002 evaluated on the two radius methods")
    res.assumptions.append("route pairs, not judged (documentation and code disagree on the spelling, no route pair involved): Rumination 002 names the "
                           "curvature flag `gauss` (code: `gaussian`) and the gravity flag `jeffries` (code: `jeffreys`)")
    kfs = vlib.known_findings("C14")
    for g in groups:
        k = _known(g, kfs)
        if k:
            res.add_known(k["id"], k["what"])
            continue
        wst = g["worst"]
        det = wst.get("detail", {})
        rec = wst.get("record", {})
        d0 = (rec.get("dirs") or [{}])[0]
        sig = ("routes|%s|ellps=%s" % (g["what"], ",".join(g["ellps"])) if g["what"] in ("panic", "opfail") and len(g["ellps"]) <= 3
               else "routes|%s|%s|%s|%s" % (g["pair"], g["shape"], g["dir"], g["what"]))
        res.add_violation({"suite": SUITE, "what": g["what"], "def": "%s  vs  %s" % (rec.get("a", {}).get(g["dir"]), det.get("route_b", rec.get("b", {}).get(g["dir"]))),
                           "pair": g["pair"], "shape": g["shape"], "dir": g["dir"], "failing": g["failing"], "of": g["of"], "ellipsoids": g["ellps"],
                           "expected": ("bit-identical results" if d0.get("cls") == "identical" else
                                        "difference <= %g %s (class %s)" % (_tol(d0), d0["tol"]["unit"], d0.get("cls"))) if d0 else "both routes return",
                           "observed": {"ellps": wst.get("ellps"), "residual": wst.get("residual"), "detail": det},
                           "deviation": g.get("deviation"),
                           "record": rec, "signature": sig})
    return summary, groups


def replay(v):
    """Re-evaluate the obligation(s) of one violation of this suite. Returns 1 (and prints the VIOLATION line) if it still fails."""
    path = None
    if isinstance(v, str):
        path = v
        v = json.load(open(v))
    rec = v.get("record")
    if not rec:
        raise vlib.ToolError("replay file carries no obligation record")
    rows, abnormal = _harness("C14routes-replay", [rec], timeout=300)
    fails = [x for x in rows if x.get("what") and not x.get("group")]
    for x in fails[:5]:
        vlib.log("  " + json.dumps({k: x[k] for k in ("pair", "shape", "ellps", "dir", "what", "residual", "detail")})[:900])
    if abnormal or fails:
        vlib.log("VIOLATION property=C14 replay=%s" % (path or "<record>"))
        return 1
    vlib.log("replay passes on the current tree")
    return 0
