"""Helpers shared by the suites that replay 'script' behaviours (gvh replay script)."""
import json, os
import vlib


def replay_scripts(tag, behaviours, timeout=1800, per_chunk_timeout=None):
    """Write behaviours, run them through the real library; returns (summary, mismatches).
    The replayer runs as a child process: if it dies (stack overflow, abort) or hangs, the
    behaviour it was executing is reported as a mismatch of kind crash/timeout and the replay
    resumes after it."""
    import subprocess, time
    inp = os.path.join(vlib.WORK, "beh", tag + ".ndjson")
    outp = os.path.join(vlib.WORK, "beh", tag + ".out.ndjson")
    prog = os.path.join(vlib.WORK, "beh", tag + ".progress")
    exe = vlib.build_harness()
    pending = list(behaviours)
    total = {"behaviours": 0, "evaluations": 0, "mismatching": 0, "summary": True}
    mism = []
    guard = 0
    while pending:
        guard += 1
        if guard > 20:
            # twenty crashes/hangs of the code under test are reported; the rest is not replayed
            total["not_replayed"] = len(pending)
            break
        vlib.write_ndjson(inp, pending)
        if os.path.exists(prog):
            os.remove(prog)
        env = dict(os.environ)
        env["GVH_PROGRESS"] = prog
        crashed = None
        try:
            p = subprocess.run([exe, "replay", "script", inp, outp], cwd=vlib.VERIF, env=env,
                               timeout=per_chunk_timeout or timeout, stdout=subprocess.PIPE,
                               stderr=subprocess.STDOUT, text=True)
            if p.returncode not in (0, 1):
                crashed = "crash (exit %d): %s" % (p.returncode, p.stdout[-300:])
        except subprocess.TimeoutExpired:
            crashed = "timeout"
        if crashed is None:
            res = vlib.read_ndjson(outp)
            sm = [r for r in res if r.get("summary")][0]
            for k in ("behaviours", "evaluations"):
                total[k] += sm[k]
            mism += [r for r in res if not r.get("summary")]
            break
        # attribute the crash and resume after the culprit
        try:
            cur = json.loads(open(prog).read())
        except Exception:
            raise vlib.ToolError("replayer died before starting any behaviour: " + crashed)
        idx = next((i for i, b in enumerate(pending) if b.get("id") == cur), None)
        if idx is None:
            raise vlib.ToolError("replayer died, culprit unknown: " + crashed)
        culprit = pending[idx]
        mism.append({"id": cur, "behaviour": culprit,
                     "fails": [{"call": -1, "what": "timeout" if crashed == "timeout" else "crash", "msg": crashed}]})
        # the ones before the culprit were fine or are reported by a re-run of that prefix
        prefix = pending[:idx]
        if prefix:
            vlib.write_ndjson(inp, prefix)
            p = subprocess.run([exe, "replay", "script", inp, outp], cwd=vlib.VERIF, timeout=timeout,
                               stdout=subprocess.PIPE, stderr=subprocess.STDOUT, text=True)
            res = vlib.read_ndjson(outp)
            sm = [r for r in res if r.get("summary")][0]
            for k in ("behaviours", "evaluations"):
                total[k] += sm[k]
            mism += [r for r in res if not r.get("summary")]
        total["behaviours"] += 1
        pending = pending[idx + 1:]
    total["mismatching"] = len(mism)
    return total, mism


def replay_one(path, prop):
    """Re-execute one recorded violation; exit 1 iff it still fails."""
    with open(path) as f:
        v = json.load(f)
    b = v.get("behaviour")
    if not b:
        print("replay file has no behaviour")
        return 2
    summary, mism = replay_scripts("replay-" + prop, [b])
    if mism:
        print("VIOLATION property=%s replay=%s" % (prop, path))
        print(json.dumps(mism[0]["fails"])[:2000])
        return 1
    print("replay passes on the current tree")
    return 0
