"""Helpers shared by the suites that replay 'script' behaviours (gvh replay script)."""
import json, os
import vlib


def replay_scripts(tag, behaviours):
    """Write behaviours, run them through the real library; returns (summary, mismatches)."""
    inp = os.path.join(vlib.WORK, "beh", tag + ".ndjson")
    outp = os.path.join(vlib.WORK, "beh", tag + ".out.ndjson")
    vlib.write_ndjson(inp, behaviours)
    rc, out = vlib.gvh(["replay", "script", inp, outp])
    res = vlib.read_ndjson(outp)
    summary = [r for r in res if r.get("summary")][0]
    mism = [r for r in res if not r.get("summary")]
    return summary, mism


def replay_one(path, prop):
    """Re-execute one recorded violation; exit 1 iff it still fails."""
    with open(path) as f:
        v = json.load(f)
    b = v.get("behaviour")
    if not b:
        print("replay file has no behaviour")
        return 2
    summary, mism = replay_scripts("replay-" + prop, [b])
    if mism:
        print("VIOLATION property=%s replay=%s" % (prop, path))
        print(json.dumps(mism[0]["fails"])[:2000])
        return 1
    print("replay passes on the current tree")
    return 0
