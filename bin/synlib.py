"""Shared by C16 / C17: decode TLC texts, run gvh_syntax, minimise mismatches."""
import json, os, re, subprocess
import vlib

BIN = "gvh_syntax"
# tuple 1 passes t_failodd, tuple 2 fails it (as in MC_C03); units of 1/1024
LATTICE = [[2 * 1024, 12 * 1024, 13 * 1024, 14 * 1024], [21 * 1024, 22 * 1024, 23 * 1024, 24 * 1024]]
GEO = [[0.2, 0.95, 100.5, 2020.5], [0.17, 1.01, 0.25, 2021.5], [-0.4, -0.7, 12.5, 2000.5]]


def decode(s):
    """TLC prints ASCII only: the specifications write a non-ASCII character as {uXXXX}."""
    return re.sub(r"\{u([0-9a-fA-F]{4})\}", lambda m: chr(int(m.group(1), 16)), s)


def run_suite(suite, tag, records, timeout=3000):
    """Run one gvh_syntax suite in a child process. Returns (summary, rows).
    The child survives panics of the code under test (catch_unwind); if it nevertheless dies
    (stack overflow, abort) or hangs, the record it was executing is reported as a row of kind
    crash/timeout and the run resumes behind it."""
    exe = vlib.build_harness(BIN)
    inp = os.path.join(vlib.WORK, "beh", tag + ".ndjson")
    outp = os.path.join(vlib.WORK, "beh", tag + ".out.ndjson")
    prog = os.path.join(vlib.WORK, "beh", tag + ".progress")
    pending = list(records)
    total = {"records": 0, "cases": 0, "evaluations": 0}
    rows = []
    for _ in range(20):
        if not pending:
            break
        vlib.write_ndjson(inp, pending)
        if os.path.exists(prog):
            os.remove(prog)
        env = dict(os.environ)
        env["GVH_PROGRESS"] = prog
        crashed = None
        try:
            p = subprocess.run([exe, suite, inp, outp], cwd=vlib.VERIF, env=env, timeout=timeout,
                               stdout=subprocess.PIPE, stderr=subprocess.STDOUT, text=True)
            if p.returncode not in (0, 1):
                crashed = "crash (exit %d): %s" % (p.returncode, p.stdout[-300:])
        except subprocess.TimeoutExpired:
            crashed = "timeout"
        if crashed is None:
            out = vlib.read_ndjson(outp)
            sm = [r for r in out if r.get("summary")]
            if not sm:
                raise vlib.ToolError("gvh_syntax %s wrote no summary" % suite)
            for k in total:
                total[k] += sm[0].get(k, 0)
            rows += [r for r in out if not r.get("summary")]
            pending = []
            break
        try:
            cur = json.loads(open(prog).read())
        except Exception:
            raise vlib.ToolError("gvh_syntax died before starting any record: " + crashed)
        idx = next((i for i, b in enumerate(pending) if b.get("id") == cur), None)
        if idx is None:
            raise vlib.ToolError("gvh_syntax died, culprit unknown: " + crashed)
        rows.append({"id": cur, "record": pending[idx], "variant": -2,
                     "fails": [{"what": "timeout" if crashed == "timeout" else "crash", "msg": crashed}]})
        if idx:
            s2, r2 = run_suite(suite, tag + "-pre", pending[:idx], timeout)
            for k in total:
                total[k] += s2.get(k, 0)
            rows += r2
        total["records"] += 1
        pending = pending[idx + 1:]
    if pending:
        total["not_replayed"] = len(pending)
    return total, rows


def minimal_by_choices(rows, key_of):
    """Among mismatching rows, keep those whose set of layout choices is minimal for their kind of
    failure: a two-choice mismatch is dropped when one of its choices alone already fails the same way.
    key_of(row) -> (what, frozenset(choices)).  Returns {signature: [rows]} ordered by size of the choice set."""
    by = {}
    for r in rows:
        what, ch = key_of(r)
        by.setdefault((what, ch), []).append(r)
    keys = sorted(by, key=lambda k: (len(k[1]), k[0], sorted(k[1])))
    kept = []
    for what, ch in keys:
        if any(w == what and c < ch for w, c in kept):
            continue
        kept.append((what, ch))
    return {"%s|%s" % (w, ",".join(sorted(c))): by[(w, c)] for w, c in kept}
