"""Source of MANIFEST.json (run bin/mkmanifest after editing)."""

HOOKS = {
    "guard": "--cfg geodesy_verif",
    "enable": "harness/.cargo/config.toml sets rustflags = [\"--cfg\", \"geodesy_verif\"]; every check runs `cargo build --offline` in /verif/harness, which rebuilds the path dependency /repo from its working tree with the hooks on",
    "baseline_off_cmd": "cd /repo && cargo test --workspace --no-fail-fast --offline",
    "source_commits": ["bd23dc0", "94ad313", "7c61f8d"],
    "add_only": True,
}

NOTES = ("One driver (bin/check <ID> --tier quick|thorough) per property; see DESIGN.md. "
         "Exit 2 means a tool problem (never a verdict). Known findings: known_findings.json.")

NA_REASON_NUMERIC = ("pure real-valued numerical identity of floating-point functions with no discrete state or structure; "
                     "TLA+/TLC has no reals, a specification would contribute nothing but a list of inputs (DESIGN.md §5.5/§5.6)")

ALL = ["C%02d" % i for i in range(1, 21)]

CHECKS = {
    "C12": {
        "text": "Explicit TLA+ stack machine (spec/Stack.tla, StackMachine.tla) transcribed from Rumination 002 and validated against the documentation's own tables (ASSUMEs); TLC enumerates every program over the instruction alphabet up to the bound x application patterns and checks the step machine against the big-step reference, honest counts and a fresh stack per application; every enumerated behaviour is replayed into Context::op/apply with exact comparison of count and all operand elements.",
        "design_ref": "DESIGN.md §5.12",
        "note": "Bounded: programs of length 2 over the full instruction set (index lists up to 2 quick / 4 thorough, roll depth up to 4 / 8), length 3 over a reduced alphabet, simulated programs up to length 12 (thorough). Probe operators t_add/t_dbl are defined by the harness. swap on <2 elements is unspecified and not generated; after an underflow only count=0 and 'every tuple carries NaN' are compared.",
        "technique": "TLA+ spec + TLC exhaustive enumeration; TLC-generated behaviours replayed into the real library (exact comparison)",
    },
}

CHECKS["C03"] = {
    "text": "Explicit TLA+ specification of instantiation and application (spec/Pipeline.tla): reference semantics (Inst, Plan, BigApply) and a small-step machine structured like the code (frame per pipeline level, one action per step taken or skipped, min-count). TLC checks, for every enumerated definition, machine = reference = stand-alone execution of the plan, inverse plan = reversed flipped forward plan, honest counts. Every enumerated behaviour is replayed into the real library: exact operands and counts in both directions on harness-defined probe operators, bit-identity of the pipeline with its steps applied one after another as stand-alone operators (probes and built-in stand-ins: utm, lcc, merc, cart, helmert, tmerc, curvature), and with the literal expansion. The data-free projection of the machine (spec/Runtime.tla: one action per hook - built, dispatch, applied, step) is model checked over a universe of nested pipelines (MC_Runtime) and used as trace acceptor (Trace_Runtime): the repository's own test suite, run with the hooks on, and a spread of the behaviours above, executed by the harness, must be behaviours of it (order, reversal, direction handed to every step, omissions, fresh stack, count = minimum, missing inverse = 0).",
    "design_ref": "DESIGN.md §5.3",
    "note": "Bounded: definitions of <= 2 steps (quick) / 3 steps (thorough) over 5 probes and 6 macros x all modifier combinations x 5 layouts. Probe operators are defined by the harness; built-ins take part only relationally (their numerics are never an oracle). A lone top-level step carries no omit_*.",
    "technique": "TLA+ spec + TLC exhaustive enumeration; TLC-generated behaviours replayed into the real library (exact and relational comparison)",
}
CHECKS["C04"] = {
    "text": "Pipeline.tla's argument-binding rules ($n, $n(d), (d), literal, absent; step-local wins; caller arguments visible to every step and to nested macros) and the expansion operator (Flatten) with the TLC-checked invariant 'operator = its literal expansion'; MacroGuard.tla models resolution as a depth-first walk with a nesting guard and TLC checks termination (liveness under weak fairness) for every resource graph over three names (all self-referential and mutually recursive ones) and for chains/cycles up to length 60. All behaviours are replayed into the real library in a supervised child process (crash or hang of the code under test is attributed to the behaviour and reported).",
    "design_ref": "DESIGN.md §5.4",
    "note": "Bounded: 60 macros, argument sets of <= 1 (quick) / 2 (thorough) arguments from a pool of six, nesting <= 3 in the binding model; equivalence with the expansion is required up to 12 levels of nesting, beyond that only 'returns Ok or Err in bounded time, and if Ok equals the expansion'. The value of the recursion limit is not specified. Self-forwarding (q=$q) is not generated.",
    "technique": "TLA+ spec + TLC (safety and liveness); TLC-generated behaviours replayed into the real library under a watchdog",
}

CHECKS["C11"] = {
    "text": "spec/Adapt.tla gives the declared meaning of every descriptor, order list and unit as finite tables and derives compositions; TLC enumerates from x to pairs and checks inverse = exact reverse mapping, adapt to=X = adapt inv from=X, composition through the internal frame, permutation-ness; every derived mapping is compared with the real operators in both directions (full-table replay), together with acceptance/rejection of all 4096 four-letter words x suffixes, every axisswap index list, every unit pair, and the mappings axisswap and adapt share (bit-identical).",
    "design_ref": "DESIGN.md §5.11",
    "note": "quick: 448 x 512 descriptor pairs (every axis order and sign, plus horizontal-first unit forms), index lists up to length 4; thorough: all 1920 x 1920 pairs, index lists up to length 5 over -5..5. The unit factor is compared strictly only where the documentation is unambiguous (horizontal axes in positions 1-2); elsewhere source element and sign are compared and the magnitude must be some ratio of declared unit factors. Unit factors transcribed from PROJ's units.c.",
    "technique": "TLA+ tables + TLC exhaustive enumeration; full-table replay into the real operators",
}

CHECKS["C18"] = {
    "text": "spec/Context.tla: the registry / grid-cache state machine (constructors, resources, operators, issued handles, shared cache, captured grid objects) with the documented resolution order; TLC checks 'operators never change' as an action property, handle uniqueness and object separation over every reachable state; one history per reachable state is replayed into real Minimal and Plain contexts with every live operator re-observed after every step. spec/PlainLookup.tla enumerates all file configurations (run-time registration, resource files and registers in two search paths, register layouts: several items, item at EOF, CRLF, missing terminator, names that are prefixes of one another) and the real Plain must pick the documented source. spec/Trace_C18.tla validates traces recorded from real threads (shared context for apply, concurrent instantiation and clear_grids; cache events emitted under the cache mutex).",
    "design_ref": "DESIGN.md §5.18",
    "note": "Bounded: 2 contexts, histories of <= 4 (quick) / 5 (thorough) actions; 19 208 lookup configurations; 6 / 60 concurrent segments of ~240 events. User operators are registered under names without a colon. Object identity is compared only among grid objects the model says are alive. The trace binding is self-tested on every run (a corrupted trace must be rejected). The grid cache events the repository's own test suite produces when run with the hooks on are validated by the same trace specification.",
    "technique": "TLA+ spec + TLC (safety, action property); behaviours replayed into the real contexts; trace validation of concurrent runs and of the repository's own test suite by TLC",
}

CHECKS["C02"] = {
    "text": "spec/Independence.tla (on top of Pipeline.tla): an application of a set is the per-tuple function applied to every member; TLC checks that the batch semantics (where the stack and the min-count live) agrees with it over all enumerated schedules, and that elementary counts are additive; the schedules are replayed exactly. spec/Trace_C02.tla validates traces recorded from ~50 real operator instances driven through 9 container kinds: a trace is accepted iff ONE function of (direction, input tuple) explains every observation of a handle's whole history and elementary counts are sums of per-tuple counts.",
    "design_ref": "DESIGN.md §5.2",
    "note": "quick: sets of <= 3 tuples from a pool of 5, ~2600 trace events / ~25 000 tuple observations (sets up to 2000 tuples); thorough: sets of <= 4, 200 events per handle, sets up to 100 000 tuples. Coor32 containers are a separate value class. The recorder forces revisits (a run with too few is a tool error, not a pass); the binding is self-tested on every run.",
    "technique": "TLA+ spec + TLC enumeration of schedules replayed into the library; trace validation of recorded histories by TLC (learned-function trace spec)",
}

CHECKS["C01"] = {
    "text": "PARTIAL. Decided by the specification: the direction algebra - Pipeline.tla's plan of a definition is a word over elementary operators; TLC checks that Plan(d, Inv) is the reversed, direction-flipped Plan(d, Fwd) and that inverse-after-forward / forward-after-inverse restore the operands exactly for every enumerated definition of invertible steps, inv modifiers, pipelines and (nested, inverted) macros; replayed into the library with exact comparison (probe basis and exact built-ins: addone, adapt, axisswap, integer helmert) and with the hook-logged dispatch sequence compared with the specification's plan. NOT decided by the specification: that each elementary operator's inverse numerically undoes its forward - this enters as an axiom and is validated as an assumption over a catalogue lattice with the statement's tolerances (reported separately as assumption_evaluations).",
    "design_ref": "DESIGN.md §5.1",
    "note": "Bounded: definitions of <= 3 steps over 4 probes and 4 macros. The catalogue lattice (spec/RoundTrip.tla: 28 operator families x aspects x every built-in ellipsoid x integer degree/metre points x both orders; quick 1.8e4, thorough 1.7e6 round trips) is evaluated on the ground with the statement's classes (exact 0; rigorous 10 um; btmerc/butm/omerc/cart above 100 km 1 mm; molodensky 'millimetre level' taken as 20 mm for |lat| <= 70) and reported as assumption_evaluations. Numerical accuracy between lattice points and for random ellipsoids is numerical analysis and is not decided.",
    "technique": "TLA+ spec + TLC (free-group algebra of plans); behaviours replayed into the library; dispatch-hook conformance; catalogue lattice as validated assumption",
}

CHECKS["C14"] = {
    "text": "PARTIAL. Decided: (a) Minimal and Plain are two implementations of the one Context/Pipeline specification: every behaviour TLC generates from Pipeline.tla for C03 and C04 and one definition per built-in operator / parameterisation is executed in both and the observation sequences (Ok/Err, steps, counts, result bits, both directions) must be identical; (b) the mappings adapt, axisswap and unitconvert share are derived from Adapt.tla by TLC (384 signed permutations, the angular unit changes) and the real operators must agree bit for bit. NOT decided: tmerc vs btmerc, cart vs GeoCart, wrapper operators vs ellipsoid methods, series vs closed forms/quadrature - pairs of floating-point routes with no discrete content for a specification.",
    "design_ref": "DESIGN.md §5.14",
    "note": "Bounded as C03/C04 quick. Error texts are not compared (they may name the provider).",
    "technique": "TLA+ spec + TLC-generated behaviours replayed into two implementations (differential, bit for bit); TLC-derived shared mappings replayed",
}

CHECKS["C19"] = {
    "text": "spec/Coord.tla models every container kind x stored dimension (arrays/slices/vecs of Coor2D/3D/4D/Coor32, height/epoch adapters, user sets and user tuples through the trait defaults) as a store with one action per writing call; TLC checks write-then-read round trips, missing dimensions (0 / NaN / adapter values), NaN on out-of-range element access, frame conditions, and agreement of the in-place store with a last-writer-wins reference; element-wise arithmetic over exact quarters, NaN and infinities. spec/Angular.tla keeps angles as sign + degrees + milli-arc-seconds and defines DMS, DM, ISO-6709 DDDMM.mmm / DDDMMSS.sss encoders/decoders by digit groups and normalisation by integer modulo; TLC checks mutual inverses, well-formed groups across every carry, sign survival below 1 degree, a carry odometer against the encoders, monotonicity, and normalisation equivalence/range. Every derived case is replayed into the library (storage bit for bit, arithmetic exact, angles within 1e-9 degrees).",
    "design_ref": "DESIGN.md §5.19",
    "note": "quick: MaxOps 2, 15 000 angles; thorough: MaxOps 2-3, 343 k angles (arc-seconds to +-10 degrees and around 180, every arc-minute and every degree/minute carry neighbourhood to +-720, seeded random angles). Adapters only over the set dimensions their documentation describes; container-index overflow, hypot, operator counts not compared; an encoder result whose minutes/seconds group reads 60 is judged by the angle it denotes.",
    "technique": "TLA+ specs + TLC exhaustive enumeration; TLC-derived cases replayed into the public coordinate/angular API and the dm/dms operators",
}
CHECKS["C20"] = {
    "text": "spec/Kp.tla models kp as a state machine (reader over the file arguments and stdin, skipping of blank lines and comments, 1-4 columns with defaults 0/0/0/NaN or -z/-t, sexagesimal notation, batcher with the batch size as a constant, transformer fwd/--inv/--roundtrip, formatter -d/-D, exit status). TLC checks, for every enumerated shape and for B = 3 and 4/5: one output line per coordinate line in input order, nothing lost or duplicated at any step, output identical to the chunk-wise program for every chunk size and independent of the split over files, a batch is never transformed empty, empty input ends normally without output, refused operation / missing file end with an error. Every shape is instantiated with the real batch size 25000, run through the kp binary built from the working tree, and stdout is compared line by line with the library's in-process result for the tuple the specification assigns to that line, together with exit status and stderr.",
    "design_ref": "DESIGN.md §5.20",
    "note": "Shapes: coordinate counts k*25000+r (k 0..2, r in {0,1,24999}), blank/comment lines in every gap relative to a batch boundary, splits over 1-3 files and stdin at every item position, 192+12 option sets, 8 column/notation mixtures, 3 refused operations, missing file at every argument position; quick 393, thorough 3945 shapes. The library is the numeric oracle (addone, helmert translation, noop compared to the digit; geo:in|utm within 2.5 units of the last place). Family F: valid operations with a domain limit (tmerc, laea), lines outside the domain at every batch-relative position; the exit status is not compared when tuples fail, and under --roundtrip an error end with a correct output prefix is admitted. Not compared: output without -d or -D (line count only), an element present in the input while -z/-t is given, sign of roundtrip residuals, stdout of failing runs, more than 4 columns.",
    "technique": "TLA+ spec + TLC exhaustive enumeration of shapes; shapes scaled to the real batch size and replayed through the real binary with the library in-process as oracle",
}

CHECKS["C16"] = {
    "text": "Syntax.tla: AST x layout -> text over 15 layout dimensions with a reference reader; TLC checks for every enumerated (case, layout) that the rendering reads back as its AST (renderer injective) and that no two words touch. Params.tla: structured spellings of every OpParameter kind with exact rational / milli-arc-second values or the rejection, required/default/last-wins/unknown-key/implicit-gamut rules, a gamut-order machine checked against the declarative reference. Every rendering is compared in the real library with the canonical rendering of its AST (split_into_steps, normalize idempotence, op outcome, steps(), params().given and typed values, apply both directions bit for bit); typed values of t_gamut are read back through Context::params and compared with the exact value within 1 ulp; rejections must name the parameter.",
    "design_ref": "DESIGN.md §5.16",
    "note": "quick: 32 cases x <=2 layout choices + 2.3k parameter definitions; thorough: <=3 choices, all definitions of <=3 steps over 3 base steps x 8 modifier combinations x <=1 choice, 4 cases x <=4 choices, 20k parameter definitions. Not generated: indented continuation colons, documented-undefined sexagesimal forms, inf/nan; built-in gamuts not enumerated (exercised through the probe t_gamut); normalize's concrete text and error variants not compared.",
    "technique": "TLA+ spec + TLC exhaustive enumeration; relational and exact replay into the real library",
}
CHECKS["C17"] = {
    "text": "ProjSyntax.tla (instantiating Pipeline and Syntax): PROJ AST x layout -> text over 8 dimensions and the reference translation; TLC checks inverted pipeline = exact inverse (plans and results), locals win over globals, step order, meaning of omit_fwd/omit_inv, canonical-text agreement with Pipeline!DefText. Each text is instantiated in a Plain context against the reference Geodesy text: outcome, steps, step parameters, bit-identical results both directions, exact operands on the probe operators, parse_proj idempotence, pass-through of the reference text, refusal of init= and nested pipelines.",
    "design_ref": "DESIGN.md §5.17",
    "note": "quick: all probe pipelines <=2 steps x modifiers x pipeline inv x clashing globals, 33 shared-operator/refusal cases (cart, helmert, utm, tmerc, merc, lcc, laea, axisswap, unitconvert, noop; a+rf, k, global ellps) x <=2 layout choices; thorough: <=3 steps, <=3 choices. Built-ins only relationally. Not generated: ellps together with a/rf, headerless multi-step texts, comments containing '|'.",
    "technique": "TLA+ spec + TLC exhaustive enumeration; relational and exact replay into the real library",
}

CHECKS["C08"] = {
    "text": "spec/Grid.tla: integer grid geometry, exact rational bilinear interpolation with clamped cell and linear continuation, containment with margin, first-hit / margin / null selection over grids= lists with @optional and @null in every position, NTv2 deepest-sub-grid walk, operator conventions. TLC checks node reproduction, corner range, edge continuity, linearity through the margin, first hit, deepest sub-grid independent of file order, continuity of consistent trees. Every scenario is encoded, decoded by the real readers and queried through Grid::at / grids_at and gridshift / deformation / deflection in a harness Context.",
    "design_ref": "DESIGN.md §5.8",
    "note": "rows, cols 2..4; lists <= 3 over three overlapping grids; trees <= 4 sub-grids; eighth-cell lattice (margin edge excluded); 1e-6 of the largest node value for angular grids, exact for projected grids; exclusions (NTv2 upper borders, ambiguous @null readings, deflection sign) as in evidence.assumptions.",
    "technique": "TLA+ spec + TLC exhaustive enumeration; behaviours replayed into the real decoders and operators",
}
CHECKS["C15"] = {
    "text": "spec/GridFile.tla: layout relation abstract grid <-> Gravsoft text (4 layouts) / NTv2 records (both byte orders, any sub-grid order); TLC checks Decode(Encode(g)) = g, layout and order independence, and totality of the documented decode rule over every enumerated fault (every truncation length, every header bit, Corrupt(field, class) table). The harness encoder is checked byte for byte against the specification; every fault, also on the shipped files, is applied to the bytes, decoded by the real readers and queried under catch_unwind in a memory-limited, watchdog-supervised child.",
    "design_ref": "DESIGN.md §5.15",
    "note": "generated files <= 672 bytes; quick: 6 generated plus 7 small shipped files (26 k faults); thorough: all generated, 100800401.gsb all lengths, the 2.8 MB deformation grid with 5 350 driver-enumerated faults. Only 'Err or safely queryable' is required of a damaged file.",
    "technique": "TLA+ spec + TLC enumeration of files and faults; replay into the real decoders in an isolated process",
}

CHECKS["C09"] = {
    "text": "spec/Gamut.tla: the catalogue of the 36 built-in operators (gamut key, kind, default/required; implicit modifiers; an unknown key) and generators derived from it: for every (operator, key) every value of the adversarial pool of its kind (every built-in ellipsoid name for ellps keys, names from the hook), one edit exhaustively and two by simulation, alone / as a pipeline step / as macro body / as macro argument through $p, $p(d), (d) / in PROJ syntax; Mutate (drop, duplicate, replace, insert one character of the syntax alphabet or a multi-byte one) on well-formed definitions; degenerate and long definitions; coordinate tuples over a special-value pool; calls of the angular / ellipsoid / tokenizer functions on special values. The driver checks that every catalogue triple is generated. spec/Trace_C09.tla: totality of the API state machine - after a call the only actions are ret_ok / ret_err / ret_count / ret_value per an API table; there is no action for panic, crash or timeout, so a trace recorded from the real library (every call under catch_unwind in a watchdog-supervised, address-space-limited child; crashes and hangs attributed to the call in progress, recording resumed after it) is rejected exactly at such an event.",
    "design_ref": "DESIGN.md §5.9",
    "note": "Robustness conformance over the generated grammar and pools, not arbitrary Unicode. quick: all 22 305 (operator, key, pool class) triples (incl. well-formed multi-element series: all-zero, equal magnitudes, huge/huge, negative zero, maximal length) alone, series keys also inside an applied pipeline, + rotating wrappings, ~8.7e5 calls, 1-2 min; thorough: all triples x 6 wrappings, pairwise, mutated definitions, function calls, ~5.1e6 calls, ~7 min. A call hangs if it burns > 5 s CPU (+2 ms per tuple) without returning. Abnormal calls sharing the panic location of a TLC-rejected event are reported as its duplicates. Built-ins or gamut keys unknown to the catalogue are reported as uncovered, not judged. The binding is self-tested on every run. NTv2 and corrupted grid files: C15.",
    "technique": "TLA+ catalogue/generator spec + TLC (exhaustive enumeration and -simulate) feeding the real library; trace validation of the recorded call/return trace by TLC against a totality spec",
}

CHECKS["C07"] = {
    "text": "PARTIAL. Explicit TLA+ specification (spec/Helmert.tla) of Helmert parameter assembly (alias keys, convention/t_epoch requirements, t_obs folding), the per-tuple time evolution P + (t-t_epoch)*dP in exact integer arithmetic, the small-angle rotation as integer skew matrices per EPSG convention, and an application machine structured like the code. TLC checks alias-independence of the resolved record, own-epoch evaluation independent of set order, untouched fourth element, exact Inv after Fwd on the translation/rate part, t_obs = per-tuple epoch, dynamic = static-at-P(t), and the convention transposition relations; all enumerated definitions and coordinate sets (mixed, repeated, out-of-order epochs) are replayed into the real operator: exactly on integer data, bit-identically between alias spellings, and to 1e-9 m + 8 ulp for algebraic relations and small-angle linear forms; assembled parameters compared through params().",
    "design_ref": "DESIGN.md §5.7",
    "note": "Exact mode is checked to be a similarity of the scale the specification derives (Gram matrix of the images of an orthogonal frame, 1e-12), the small-angle round trip to stay within |r(t)|^2 |x|. Not claimed: Molodensky accuracy (no published figure in the documentation). Bounded: quick 896 parameter cores x sets <= 3 tuples x 3 epochs; thorough 3-value parameter pools, sets <= 4 (translation/rate) / 3 tuples x epochs {1995, 2000, 2002, NaN}. A dynamic definition without t_epoch is only required not to panic. 1e-9 m alone is below one ulp at 1e7 m, hence + 8 ulp.",
    "technique": "TLA+ spec + TLC exhaustive enumeration; TLC-generated behaviours replayed into the real operator (exact, relational and linear-form comparison)",
}
CHECKS["C13"] = {
    "text": "Explicit TLA+ specification (spec/ProjParams.tla) of plane projections as (x_0,y_0) + k_0*a*Core(lon-lon_0, lat) with Core uninterpreted: resolution of written definitions (implicit gamut defaults, utm/butm derivation in integers, lcc second parallel, merc/webmerc on a sphere, noop aliases), partition into classes, and the exact rational affine relation between any two members; TLC checks the relations R1-R9, composition through the canonical member, inversion, and the UTM integers for all 60 zones x 2 hemispheres. Every pair is applied to a domain point lattice forward and inverse in the real operators: bit-identical for utm/tmerc and butm/btmerc and the noop aliases, 1e-9 m + 16 ulp otherwise; resolved x_0, y_0, k_0 and UTM integers compared with params().",
    "design_ref": "DESIGN.md §5.13",
    "note": "lat_ts <-> k_0 uses the statement's closed form evaluated in the driver (assumption_evaluations). Quick: canonical member, one-parameter neighbours and twins (86k pairs); thorough: all pairs per class (2.85M) incl. every built-in ellipsoid name. lat_0 of merc/tmerc/btmerc, omerc lonc and the identity of the default ellipsoid are outside the statement and not compared; where lon_0 or a false origin differs the tolerance includes the rounding of the longitude and of the shift.",
    "technique": "TLA+ spec + TLC exhaustive enumeration of definition pairs; pairwise relational replay into the real operators + params() comparison",
}

CHECKS["C10"] = {
    "text": "spec/Catalogue.tla: one row per built-in operator parameterisation (78 rows over all 36 built-in names) with the coordinate elements it reads and writes, the dependency of outputs on inputs, invertibility, declared domain limits and representative points inside / far outside / at the edge / outside grid coverage with a null grid; an abstract semantics (per element same | new | nan | any, per tuple counted yes | no | either) predicting the admissible outcomes for operator x direction x domain class x NaN mask (all 16), for whole sets, and - by composing the per-step transformers with stack depth and min-count - for pipelines with inv and omit_*. TLC checks the sanity of the abstract semantics (count <= n, uncounted => NaN somewhere, untouched elements kept, forced NaN propagates, inside => counted, outside => not counted, no deviation coincides with the reference). Every case, set and pipeline is replayed on the real operators (results abstracted by bit comparison and is_nan; per-step counts from the step hook).",
    "design_ref": "DESIGN.md §5.10",
    "note": "quick: 3 216 cases, 156 sets, 14 170 two-step pipelines; thorough: all-rows two-step and three-step pipelines (127 885). Domain classes are decided at representative points only, not across the whole domain. Stack steps (underflow, swap on < 2 elements, the undocumented drop, deprecated push/pop) are covered by replaying the stack machine's three-step programs with the honesty clauses only. Not compared: which elements carry the NaN of a failed tuple; lcc/somerc non-convergence (no representative point); operators that declare no limit have no 'outside' class.",
    "technique": "TLA+ abstract-interpretation spec enumerated by TLC; every case, set and pipeline replayed on the real operators; per-step counts from the step hook; trace validation of the repository's own test suite against the application protocol (spec/Runtime.tla)",
}

_claimed = set(CHECKS)
_NA_FIXED = {
    "C05": NA_REASON_NUMERIC,
    "C06": NA_REASON_NUMERIC,
}
NOT_APPLICABLE = [{"property_id": p, "reason": _NA_FIXED.get(p, "check not built yet (work in progress; see DESIGN.md §10 for the order of work)")}
                  for p in ALL if p not in _claimed]
