"""Source of MANIFEST.json (run bin/mkmanifest after editing)."""

HOOKS = {
    "guard": "--cfg geodesy_verif",
    "enable": "harness/.cargo/config.toml sets rustflags = [\"--cfg\", \"geodesy_verif\"]; every check runs `cargo build --offline` in /verif/harness, which rebuilds the path dependency /repo from its working tree with the hooks on",
    "baseline_off_cmd": "cd /repo && cargo test --workspace --no-fail-fast --offline",
    "source_commits": ["bd23dc0"],
    "add_only": True,
}

NOTES = ("One driver (bin/check <ID> --tier quick|thorough) per property; see DESIGN.md. "
         "Exit 2 means a tool problem (never a verdict). Known findings: known_findings.json.")

NA_REASON_NUMERIC = ("pure real-valued numerical identity of floating-point functions with no discrete state or structure; "
                     "TLA+/TLC has no reals, a specification would contribute nothing but a list of inputs (DESIGN.md §5.5/§5.6)")

ALL = ["C%02d" % i for i in range(1, 21)]

CHECKS = {
    "C12": {
        "text": "Explicit TLA+ stack machine (spec/Stack.tla, StackMachine.tla) transcribed from Rumination 002 and validated against the documentation's own tables (ASSUMEs); TLC enumerates every program over the instruction alphabet up to the bound x application patterns and checks the step machine against the big-step reference, honest counts and a fresh stack per application; every enumerated behaviour is replayed into Context::op/apply with exact comparison of count and all operand elements.",
        "design_ref": "DESIGN.md §5.12",
        "note": "Bounded: programs of length 2 over the full instruction set (index lists up to 2 quick / 4 thorough, roll depth up to 4 / 8), length 3 over a reduced alphabet, simulated programs up to length 12 (thorough). Probe operators t_add/t_dbl are defined by the harness. swap on <2 elements is unspecified and not generated; after an underflow only count=0 and 'every tuple carries NaN' are compared.",
        "technique": "TLA+ spec + TLC exhaustive enumeration; TLC-generated behaviours replayed into the real library (exact comparison)",
    },
}

_claimed = set(CHECKS)
_NA_FIXED = {
    "C05": NA_REASON_NUMERIC,
    "C06": NA_REASON_NUMERIC,
}
NOT_APPLICABLE = [{"property_id": p, "reason": _NA_FIXED.get(p, "check not built yet (work in progress; see DESIGN.md §10 for the order of work)")}
                  for p in ALL if p not in _claimed]
