"""Shared driver library for /verif/bin/check.

Conventions
-----------
exit 0  property held on everything explored (KNOWN-FINDING lines may be printed)
exit 1  a line `VIOLATION property=<id> replay=<path>` was printed
exit 2  tool problem (TLC/cargo failure, timeout of the checker, vacuous run)
"""
import json, os, re, subprocess, sys, time, shutil, hashlib

VERIF = os.path.dirname(os.path.dirname(os.path.abspath(__file__)))
SPEC = os.path.join(VERIF, "spec")
WORK = os.path.join(VERIF, "work")
HARNESS = os.path.join(VERIF, "harness")
EVID = os.path.join(VERIF, "evidence")
REPLAYS = os.path.join(VERIF, "replays")
REPO = os.environ.get("VERIF_REPO", "/repo")
TLA_JAR = "/opt/veriftools/tla/tla2tools.jar"
COMMUNITY = "/opt/veriftools/tla/CommunityModules-deps.jar"


class ToolError(Exception):
    pass


def log(*a):
    print(*a, flush=True)


def sh(cmd, cwd=None, timeout=None, env=None, check=True, stdin=None):
    e = dict(os.environ)
    if env:
        e.update(env)
    p = subprocess.run(cmd, cwd=cwd, timeout=timeout, env=e, input=stdin,
                       stdout=subprocess.PIPE, stderr=subprocess.STDOUT, text=True)
    if check and p.returncode != 0:
        raise ToolError("command failed (%d): %s\n%s" % (p.returncode, cmd, p.stdout[-4000:]))
    return p


def git_rev(path):
    try:
        return subprocess.run(["git", "-C", path, "rev-parse", "--short", "HEAD"],
                              stdout=subprocess.PIPE, text=True).stdout.strip()
    except Exception:
        return "?"


# --------------------------------------------------------------------------
# harness
# --------------------------------------------------------------------------

_built = set()


def gvh_path(bin="gvh"):
    return os.path.join(WORK, "target", "debug", bin)


def build_harness(bin="gvh"):
    """(Re)build one harness binary, and thereby /repo's current working tree with hooks on."""
    if bin in _built:
        return gvh_path(bin)
    os.makedirs(WORK, exist_ok=True)
    lock = os.path.join(HARNESS, "Cargo.lock")
    if not os.path.exists(lock):
        shutil.copy(os.path.join(REPO, "Cargo.lock"), lock)
    t0 = time.time()
    env = {"CARGO_NET_OFFLINE": "true"}
    p = sh(["cargo", "build", "--offline", "--bin", bin], cwd=HARNESS, env=env, check=False, timeout=1800)
    if p.returncode != 0:
        raise ToolError("harness build failed:\n" + p.stdout[-6000:])
    log("[build] %s built in %.1fs" % (bin, time.time() - t0))
    _built.add(bin)
    return gvh_path(bin)


def build_kp():
    """Build the kp binary from /repo's working tree into work/kp-target."""
    tgt = os.path.join(WORK, "kp-target")
    p = sh(["cargo", "build", "--offline", "--bin", "kp", "--target-dir", tgt],
           cwd=REPO, env={"CARGO_NET_OFFLINE": "true"}, check=False, timeout=1800)
    if p.returncode != 0:
        raise ToolError("kp build failed:\n" + p.stdout[-6000:])
    return os.path.join(tgt, "debug", "kp")


def gvh(args, timeout=3600, stdin=None, env=None, bin="gvh"):
    """Run a harness binary; returns (returncode, stdout). A non-zero code other than 0/1 is a tool error."""
    exe = build_harness(bin)
    p = sh([exe] + list(args), cwd=VERIF, timeout=timeout, check=False, stdin=stdin, env=env)
    if p.returncode not in (0, 1):
        raise ToolError("gvh %s failed (%d):\n%s" % (" ".join(args), p.returncode, p.stdout[-6000:]))
    return p.returncode, p.stdout


# --------------------------------------------------------------------------
# TLC
# --------------------------------------------------------------------------

def _parse_tla_string_literal(lit):
    # TLC prints strings with \" and \\ escapes only: JSON compatible
    return json.loads(lit)


REPLAY_RE = re.compile(r'^<<"([A-Z_]+)", (".*")>>$')


def tlc(module, cfg=None, workers=8, timeout=1800, simulate=None, depth=None, seed=None,
        env=None, extra=None, coverage=True, xmx="6g", deque=False, outfile=None, tag=None):
    """Run TLC on spec/<module>.tla with spec/<cfg>.cfg.
    Returns dict(ok, states, distinct, depth, coverage{action:count}, records{KIND:[json...]},
                 out, wall, error)"""
    cfg = cfg or module
    tag = tag or cfg
    meta = os.path.join(WORK, "tlc", tag)
    shutil.rmtree(meta, ignore_errors=True)
    os.makedirs(meta, exist_ok=True)
    jopts = "-Xss1g -Xmx%s -XX:+UseParallelGC" % xmx
    if deque:
        jopts += " -Dtlc2.tool.queue.IStateQueue=StateDeque"
    cmd = ["java"] + jopts.split() + ["-cp", TLA_JAR + ":" + COMMUNITY, "tlc2.TLC",
           "-workers", str(workers), "-metadir", meta, "-cleanup", "-noGenerateSpecTE",
           "-config", cfg + ".cfg"]
    if coverage and not simulate:
        cmd += ["-coverage", "1"]
    if simulate:
        cmd += ["-simulate", "num=%d" % simulate]
        if depth:
            cmd += ["-depth", str(depth)]
    if seed is not None:
        cmd += ["-seed", str(seed)]
    if extra:
        cmd += extra
    cmd += [module + ".tla"]
    e = dict(os.environ)
    e.pop("JAVA_TOOL_OPTIONS", None)
    if env:
        e.update({k: str(v) for k, v in env.items()})
    t0 = time.time()
    try:
        p = subprocess.run(cmd, cwd=SPEC, env=e, timeout=timeout, stdout=subprocess.PIPE,
                           stderr=subprocess.STDOUT, text=True)
    except subprocess.TimeoutExpired:
        raise ToolError("TLC timed out after %ss on %s" % (timeout, cfg))
    wall = time.time() - t0
    out = p.stdout
    if outfile:
        with open(outfile, "w") as f:
            f.write(out)
    res = {"ok": False, "states": 0, "distinct": 0, "depth": 0, "coverage": {}, "records": {},
           "out": out, "wall": wall, "error": None, "rc": p.returncode, "cfg": cfg}
    for line in out.splitlines():
        m = REPLAY_RE.match(line)
        if m:
            try:
                res["records"].setdefault(m.group(1), []).append(json.loads(_parse_tla_string_literal(m.group(2))))
            except Exception as ex:  # pragma: no cover
                raise ToolError("cannot parse TLC record: %s (%s)" % (line[:200], ex))
            continue
        m = re.match(r"^(\d+) states generated, (\d+) distinct states found", line)
        if m:
            res["states"] = int(m.group(1))
            res["distinct"] = int(m.group(2))
        m = re.match(r"^The depth of the complete state graph search is (\d+)", line)
        if m:
            res["depth"] = int(m.group(1))
        # coverage lines: <Action line 12, col 1 to line 14, col 20 of module M>: 12:34
        m = re.match(r"^<(\w+) line \d+, col \d+ to line \d+, col \d+ of module (\w+)>: (\d+):(\d+)", line)
        if m:
            res["coverage"][m.group(1)] = res["coverage"].get(m.group(1), 0) + int(m.group(4))
    if "Model checking completed. No error has been found." in out or (simulate and p.returncode == 0):
        res["ok"] = True
    elif simulate and "Simulation" in out and "Error:" not in out:
        res["ok"] = True
    else:
        m = re.search(r"Error: (.*)", out)
        res["error"] = m.group(1) if m else "TLC exit %d" % p.returncode
    return res


def tlc_trace(module, trace_path, cfg=None, timeout=900, tag=None):
    """Validate a recorded trace (ndjson) against a trace specification.
    Returns dict(accepted, matched, total, next, states, wall)."""
    r = tlc(module, cfg or module, workers=1, timeout=timeout, env={"TRACE": trace_path}, coverage=False,
            deque=True, xmx="4g", tag=tag or (module + "-trace"))
    total = sum(1 for line in open(trace_path) if line.strip())
    info = {"accepted": False, "matched": None, "total": total, "next": None, "states": r["distinct"],
            "generated": r["states"], "wall": r["wall"], "out": r["out"], "cfg": r["cfg"], "depth": r["depth"]}
    m = re.search(r'<<"REJECTED", (".*")>>', r["out"])
    if m:
        d = json.loads(json.loads(m.group(1)))
        info.update({"matched": d["matched"], "next": d["next"]})
        return info
    if r["ok"]:
        info["accepted"] = True
        info["matched"] = total
        return info
    raise ToolError("trace validation run failed (%s): %s\n%s" % (module, r["error"], r["out"][-3000:]))


def tlc_must_pass(r):
    if not r["ok"]:
        tail = "\n".join(l for l in r["out"].splitlines() if not l.startswith('<<"'))[-5000:]
        raise ToolError("TLC reported an error in the model itself (%s): %s\n%s" % (r["cfg"], r["error"], tail))
    return r


def require_coverage(r, actions):
    """Vacuity guard: every named action must have been taken at least once."""
    missing = [a for a in actions if r["coverage"].get(a, 0) == 0]
    if missing:
        raise ToolError("vacuous model run %s: actions never taken: %s (coverage %s)" % (r["cfg"], missing, r["coverage"]))


# --------------------------------------------------------------------------
# known findings
# --------------------------------------------------------------------------

def known_findings(prop):
    path = os.path.join(VERIF, "known_findings.json")
    if not os.path.exists(path):
        return []
    with open(path) as f:
        kf = json.load(f)
    return [k for k in kf.get("findings", []) if k.get("property") == prop]


# --------------------------------------------------------------------------
# results
# --------------------------------------------------------------------------

class Result:
    """Accumulates what one check run covered and found."""

    def __init__(self, prop, tier, seed, level):
        self.prop, self.tier, self.seed, self.level = prop, tier, seed, level
        self.t0 = time.time()
        self.states = 0
        self.transitions = 0
        self.tlc_runs = []
        self.behaviours_replayed = 0
        self.trace_segments_accepted = 0
        self.trace_events = 0
        self.evaluations = 0
        self.distinct_nontrivial = 0
        self.assumption_evaluations = 0
        self.samples = []
        self.violations = []      # dicts
        self.known = {}           # finding id -> [count, what]
        self.rule = ""
        self.assumptions = []
        self.extra = {}
        self.exhaustive = False
        self.uncovered = []

    def add_tlc(self, r):
        self.states += r["distinct"]
        self.transitions += r["states"]
        self.tlc_runs.append({"cfg": r["cfg"], "distinct": r["distinct"], "generated": r["states"],
                              "depth": r["depth"], "wall_s": round(r["wall"], 1),
                              "actions": r["coverage"]})

    def add_violation(self, v):
        self.violations.append(v)

    def add_known(self, fid, what):
        c = self.known.setdefault(fid, [0, what])
        c[0] += 1

    def finish(self):
        os.makedirs(EVID, exist_ok=True)
        wall = time.time() - self.t0
        rc = 0
        for fid, (n, what) in sorted(self.known.items()):
            log("KNOWN-FINDING: property=%s %s [%s, %d observation(s)]" % (self.prop, what, fid, n))
        if self.violations:
            os.makedirs(REPLAYS, exist_ok=True)
            # one replay file per distinct signature, at most 10 reported
            seen = set()
            for v in self.violations:
                sig = v.get("signature") or json.dumps(v, sort_keys=True)[:300]
                if sig in seen:
                    continue
                seen.add(sig)
                if len(seen) > 10:
                    break
                h = hashlib.sha1(json.dumps(v, sort_keys=True).encode()).hexdigest()[:10]
                path = os.path.join(REPLAYS, "%s-%s.json" % (self.prop, h))
                v2 = dict(v)
                v2.update({"property": self.prop, "tier": self.tier, "seed": self.seed,
                           "repo_rev": git_rev(REPO), "verif_rev": git_rev(VERIF)})
                with open(path, "w") as f:
                    json.dump(v2, f, indent=1)
                log("VIOLATION property=%s replay=%s" % (self.prop, path))
                log("  " + json.dumps({k: v[k] for k in v if k in ("what", "def", "expected", "observed", "suite")})[:600])
            rc = 1
        cov = {
            "states": self.states,
            "transitions": self.transitions,
            "traces_validated_against_impl": self.behaviours_replayed + self.trace_segments_accepted,
            "behaviours_replayed": self.behaviours_replayed,
            "trace_segments_accepted": self.trace_segments_accepted,
            "trace_events_validated": self.trace_events,
            "evaluations": self.evaluations,
            "distinct_nontrivial": self.distinct_nontrivial,
            "assumption_evaluations": self.assumption_evaluations,
            "rule": self.rule,
            "samples": self.samples[:6],
            "exhaustive": self.exhaustive,
            "tlc_runs": self.tlc_runs,
            "known_findings_observed": {k: v[0] for k, v in self.known.items()},
            "uncovered": self.uncovered,
        }
        cov.update(self.extra)
        ev = {"property_id": self.prop, "tier": self.tier, "seed": self.seed, "level": self.level,
              "coverage": cov, "assumptions": self.assumptions, "wall_s": round(wall, 2),
              "violations": len(self.violations)}
        with open(os.path.join(EVID, self.prop + ".json"), "w") as f:
            json.dump(ev, f, indent=1)
        log("[%s] tier=%s states=%d transitions=%d replayed=%d traces=%d evals=%d nontrivial=%d violations=%d known=%d wall=%.1fs"
            % (self.prop, self.tier, self.states, self.transitions, self.behaviours_replayed,
               self.trace_segments_accepted, self.evaluations, self.distinct_nontrivial,
               len(self.violations), len(self.known), wall))
        return rc


def write_ndjson(path, records):
    os.makedirs(os.path.dirname(path), exist_ok=True)
    with open(path, "w") as f:
        for r in records:
            f.write(json.dumps(r, separators=(",", ":")) + "\n")


def read_ndjson(path):
    out = []
    with open(path) as f:
        for line in f:
            line = line.strip()
            if line:
                out.append(json.loads(line))
    return out
